"""C13 rules from the second audit pass (replays/C13-hunt2).

  R-ENDPOS    an attribute locator does not hand out the end position as an attribute (its callers read type/len there)
  R-TERMROOM  a receive buffer that gets a terminating 0 at [received] is received into with capacity sizeof - 1
  R-CHUNKEND  the chunked-body decoder steps over the CRLF that ends a chunk's data before it reads the next size line
"""
from rules import driver, core
from rules.core import key, const_val, walk


def _walk(c):
    for y, ps in walk(c):
        yield y, ps
        if y.get("k") == "lazy" and y.get("lz") is not None:
            for r in _walk(y["lz"]):
                yield r


def end_position_rule(rep, u, fname="radius_pkt_attr_get_from_offset"):
    fn = u.fn(fname)
    if fn is None or not fn.has_cfg:
        raise driver.AnalysisBroken("anchor %s vanished" % fname)
    rep.functions.add(fname)
    off = fn.params[1]["n"]
    # comparisons of the offset with the packet size that lead to a failing return
    strict_only = None
    refused = False
    for bid in fn.reachable_blocks():
        cnd = fn.blocks[bid].cond
        if cnd is None:
            continue
        fails = any(const_val(r.get("e")) not in (None, 0) and fn.dominates(bid, p[0]) and p[0] != bid for p, r in fn.returns())
        for y, _ in _walk(cnd):
            if y.get("k") == "bin" and y["op"] in ("==", ">=", "<=", ">", "<") and fails:
                a, b = core.strip_casts(y["x"]), core.strip_casts(y["y"])
                names = {key(a), key(b)}
                if off in names and any("size" in n_ or "len" in n_ for n_ in names - {off}):
                    if y["op"] == "==" or (y["op"] == ">=" and key(a) == off) or (y["op"] == "<=" and key(b) == off):
                        refused = True
                    elif y["op"] in (">", "<"):
                        strict_only = y.get("ln")
    desc = "%s: the end position (offset == packet length) is not returned as an attribute" % fname
    if refused:
        rep.proved("R-ENDPOS", fn, "end-position-refused", desc, "")
    else:
        rep.violated("R-ENDPOS", fn, "end-position-refused", desc, "only offset > length is refused (line %s): walking a valid 26-byte packet with offset += len + 2 ends at 26, "
                     "radius_pkt_attr_get_data_ptr_raw then reads type/len behind the datagram (len = SIZE_MAX - 1 reported)" % strict_only)
    return 1


def terminator_room_rule(rep, u, rel):
    n = 0
    for fn in u.function_list:
        if fn.relfile() != rel or not fn.has_cfg:
            continue
        for pos, root, x, ps in fn.nodes():
            if not (x.get("k") == "bin" and x["op"] == "=" and const_val(x["y"]) == 0 and core.strip_casts(x["x"]).get("k") == "sub"):
                continue
            sub = core.strip_casts(x["x"])
            arr = core.strip_casts(sub["b"])
            idx = core.strip_casts(sub["i"])
            if arr.get("k") != "ref" or idx.get("k") != "ref" or fn.unit.type(arr["t"])["k"] != "arr":
                continue
            # the receive call that fills this array
            for p2, r2, c, _ in fn.calls():
                nm = c.get("fn") or ""
                if not any(t_ in nm for t_ in ("recv", "read")) or len(c.get("args", [])) < 3:
                    continue
                if not any(core.is_ref(core.strip_casts(a), name=arr["n"]) for a in c["args"][:2]):
                    continue
                n += 1
                rep.functions.add(fn.name)
                cap = [a for a in c["args"] if any(z.get("k") == "sizeof" for z, _ in walk(a))]
                full = bool(cap) and core.strip_casts(cap[0]).get("k") == "sizeof"
                desc = "%s: '%s[%s] = 0' has room - the datagram is received into sizeof(%s) - 1 bytes" % (fn.name, arr["n"], idx["n"], arr["n"])
                (rep.violated if full else rep.proved)("R-TERMROOM", fn, "terminator-room:%s" % arr["n"], desc,
                                                       "capacity is the whole array: a datagram of sizeof(%s) bytes or more puts the terminator one byte behind it" % arr["n"] if full else "", x.get("ln"))
    return n


def chunk_end_rule(rep, u, fname="http_data_decode_chunked"):
    fn = u.fn(fname)
    if fn is None or not fn.has_cfg:
        raise driver.AnalysisBroken("anchor %s vanished" % fname)
    rep.functions.add(fname)
    loops = fn.loops()
    body = set().union(*loops.values()) if loops else set()
    ok = False
    for bid in body:
        cnd = fn.blocks[bid].cond
        if cnd is None:
            continue
        for y, _ in _walk(cnd):
            if y.get("k") == "call" and y.get("fn") in ("memcmp", "mem_cmp") and any(a.get("k") == "str" or "\\r\\n" in key(a) or key(a) in ('"\r\n"',) for a in map(core.strip_casts, y["args"])):
                # the true/equal edge advances the read cursor by 2
                for s_ in fn.blocks[bid].rsucc():
                    for e in fn.blocks[s_].elems:
                        for z, _ in walk(e):
                            st = core.step_of(z)
                            if st is not None and st[1] == 2:
                                ok = True
    desc = "%s: the CRLF that ends a chunk's data is stepped over before the next chunk-size line is read" % fname
    (rep.proved if ok else rep.violated)("R-CHUNKEND", fn, "chunk-data-crlf", desc, "" if ok else
                                         "the cursor stays on the CRLF after the chunk data, the next size line is empty (= 0 = last chunk): "
                                         "'5 hello 6 world 0' decodes to 'hello' with success")
    return 1


# ------------------------------------------------------------------ R-LIMIT: pointer cursor against a pointer limit
# (the label walkers of dns.h keep a byte cursor and an end pointer; the relational interpreter does not track reads
# through a cursor derived from a struct pointer, so the clause is decided structurally)

def _lin_ptr(fn, e, depth=0):
    from props import c17
    return c17._lin(fn, e, depth)


def cursor_limit_rule(rep, u, rel="include/proto/dns.h"):
    """For every function of the file that walks a buffer with a pointer cursor C compared against a pointer limit L:
       (a) L is base + size for a (pointer, size) parameter pair - not cursor + size with the cursor already advanced;
       (b) every read through C inside a loop (a dereference, or a library copy of n constant bytes from C) is preceded in the
           same iteration by a comparison of C with L that leaves when fewer than n bytes remain, with no advance of C between
           the comparison and the read."""
    from rules import r_mpt, r_range
    n = 0
    for fn in u.function_list:
        if fn.relfile() != rel or not fn.has_cfg or fn.name.endswith("self_test"):
            continue
        loops = fn.loops()
        if not loops:
            continue
        ptr_locals = {}
        for pos, root, x, ps in fn.nodes():
            if core.is_ref(x) and x.get("dk") == "local" and (u.type(x["t"]) or {}).get("k") == "ptr":
                ptr_locals[x["id"]] = x["n"]
        # limits: pointer locals assigned exactly once, outside every loop, from pointer + integer
        in_loop = set().union(*loops.values())
        assigns = {}
        for pos, root, x, ps in fn.nodes():
            if x.get("k") == "bin" and x["op"] == "=" and core.is_ref(core.strip_casts(x["x"])) and core.strip_casts(x["x"]).get("id") in ptr_locals:
                assigns.setdefault(core.strip_casts(x["x"])["id"], []).append((pos, x))
        limits = {}
        for vid, lst in assigns.items():
            if len(lst) == 1 and lst[0][0][0] not in in_loop:
                rhs = core.strip_casts(lst[0][1]["y"])
                if rhs.get("k") == "bin" and rhs["op"] == "+":
                    limits[vid] = lst[0]
        if not limits:
            continue
        # cursors: pointer locals compared with a limit inside a loop and dereferenced there
        for lid, (lpos, lasg) in sorted(limits.items()):
            cursors = set()
            for bid in in_loop:
                c = fn.blocks[bid].cond
                if c is None:
                    continue
                ids = core.ref_ids(c)
                if lid in ids:
                    cursors |= {i for i in ids if i in ptr_locals and i != lid and i not in limits}
            for cid in sorted(cursors):
                cname, lname = ptr_locals[cid], ptr_locals[lid]
                # (a) the limit
                pparams = {p["n"] for p in fn.params if (u.type(p["t"]) or {}).get("k") == "ptr"}
                iparams = {p["n"] for p in fn.params if (u.type(p["t"]) or {}).get("k") == "int"}
                lf = _lin_ptr(fn, lasg["y"])
                # a cursor with several definitions stays symbolic in the linear form: resolve the one that reaches the limit
                if lf is not None and cname in lf:
                    cdefs = [x_ for p_, x_ in assigns.get(cid, []) if fn.pos_dominates(p_, lpos)]
                    if cdefs:
                        cf = _lin_ptr(fn, cdefs[-1]["y"])
                        if cf is not None:
                            k_ = lf.pop(cname)
                            for a_, v_ in cf.items():
                                lf[a_] = lf.get(a_, 0) + k_ * v_
                n += 1
                rep.functions.add(fn.name)
                inst = "limit:%s" % lname
                desc = "%s: %s is the end of the caller's buffer (pointer parameter + size parameter)" % (fn.name, lname)
                if lf is None:
                    rep.undecided("R-LIMIT", fn, inst, desc, "limit %s is not linear" % key(lasg["y"])[:50])
                else:
                    nz = {a_: v_ for a_, v_ in lf.items() if v_}
                    bases = [a_ for a_ in nz if a_ in pparams]
                    sizes = [a_ for a_ in nz if a_ in iparams]
                    if len(bases) == 1 and len(sizes) == 1 and len(nz) == 2 and all(v_ == 1 for v_ in nz.values()):
                        rep.proved("R-LIMIT", fn, inst, desc, "%s = %s + %s" % (lname, bases[0], sizes[0]))
                    else:
                        rep.violated("R-LIMIT", fn, inst, desc, "%s = %s, i.e. %s: the walk may run %s past the end of the message (a name whose labels end at the last byte "
                                     "is followed into the bytes behind it)" % (lname, key(lasg["y"])[:40], " + ".join("%s*%s" % (v_, a_) if v_ != 1 else a_ for a_, v_ in sorted(nz.items())),
                                                                                "+".join(a_ for a_ in nz if a_ not in bases[:1] and a_ not in sizes[:1]) or "bytes"), lasg.get("ln"))
                # (b) the reads
                advances = [p_ for p_, r_, x_, ps_ in fn.nodes() if p_[0] in in_loop and cid in r_range.direct_writes_of(x_) and x_.get("k") in ("bin", "un")]
                checks = [b for b in in_loop if fn.blocks[b].cond is not None and {cid, lid} <= core.ref_ids(fn.blocks[b].cond)]
                reads = []
                for p_, r_, x_, ps_ in fn.nodes():
                    if p_[0] not in in_loop:
                        continue
                    if x_.get("k") == "un" and x_["op"] == "*" and core.is_ref(core.strip_casts(x_["e"])) and core.strip_casts(x_["e"]).get("id") == cid:
                        if any(q.get("k") == "bin" and q["op"] == "=" and core.strip_casts(q["x"]) is x_ for q in ps_):
                            continue                       # a store through the cursor: not this rule
                        reads.append((p_, x_, 1))
                    elif x_.get("k") == "call" and x_.get("fn") in ("memcpy", "memmove", "__builtin___memcpy_chk", "__builtin_memcpy") and len(x_["args"]) >= 3:
                        s_ = core.strip_casts(x_["args"][1])
                        if core.is_ref(s_) and s_.get("id") == cid and const_val(x_["args"][2]) is not None:
                            reads.append((p_, x_, const_val(x_["args"][2])))
                        elif core.is_ref(s_) and s_.get("id") == cid and core.is_ref(core.strip_casts(x_["args"][2])):
                            reads.append((p_, x_, core.strip_casts(x_["args"][2])))     # variable length: evaluated for the value 5
                for rpos, rx, ext in reads:
                    n += 1
                    extvar = None
                    if isinstance(ext, dict):
                        extvar, ext = ext, 5
                    inst = "read-inside:%s@%s" % (cname, _read_ordinal(reads, rpos))
                    desc = "%s: the read of %s byte(s) at %s is preceded in the same iteration by a test against %s" % (fn.name, key(extvar) if extvar is not None else ext, cname, lname)
                    good = None
                    for b in checks:
                        if not fn.pos_dominates((b, len(fn.blocks[b].elems) - 1), rpos):
                            continue
                        # no advance of the cursor between the test and the read
                        mid = fn.reach_from([b]) & {q for q in fn.reachable_blocks() if rpos[0] in fn.reach_from([q]) or q == rpos[0]}
                        if any(a_[0] in mid and a_[0] != b and not (a_[0] == rpos[0] and a_[1] > rpos[1]) and not _loops_back(fn, a_[0], b, rpos[0]) for a_ in advances):
                            continue
                        # with ext - 1 bytes left the test must leave
                        c = fn.blocks[b].cond
                        L0 = 0x10000
                        env = {}
                        for y, _ in _walk(c):
                            if core.is_ref(y) and y.get("id") == cid:
                                env[id(y)] = L0 - (ext - 1)
                            elif core.is_ref(y) and y.get("id") == lid:
                                env[id(y)] = L0
                            elif extvar is not None and core.is_ref(y) and y.get("id") == extvar.get("id"):
                                env[id(y)] = ext
                        try:
                            v = r_mpt.eval_expr(c, env)
                        except r_mpt.Unknown:
                            continue
                        blk = fn.blocks[b]
                        s_ = blk.succ[0] if v else blk.succ[1]
                        if s_ is None or rpos[0] not in fn.reach_from([s_], avoid=[b]):
                            good = c
                            break
                    if good is not None:
                        rep.proved("R-LIMIT", fn, inst, desc, key(good)[:50])
                    else:
                        rep.violated("R-LIMIT", fn, inst, desc, "no test of %s against %s covers this read: with the cursor at the end of the message (a label run that ends "
                                     "exactly at msg_size, or a compression pointer cut after its first byte) the byte(s) behind the buffer are read" % (cname, lname), rx.get("ln"))
    return n


def _read_ordinal(reads, rpos):
    return 1 + sorted(p_ for p_, _x, _e in reads).index(rpos)


def _loops_back(fn, ablock, check, rblock):
    """the advance lies on the way round the loop (after the read, before the next test), not between test and read"""
    return rblock in fn.reach_from([check], avoid=[ablock]) and ablock not in _between(fn, check, rblock)


def _between(fn, a, b):
    """blocks on some path from a to b that does not pass through a again"""
    fwd = fn.reach_from([a], avoid=[])
    out = set()
    for q in fwd:
        if q == a:
            continue
        if b == q or b in fn.reach_from([q], avoid=[a]):
            out.add(q)
    return out


# ------------------------------------------------------------------ third pass (replays/C13-hunt3)

NAME_TABLES = {                 # (validator, field) -> (name table indexed by that field, the bound macro): confirmed by reading
    ("dhcp4_hdr_check", "htype"): ("dhcp4_header_htype", "DHCP4_HDR_HTYPE_MAX"),
}


def table_bound_rule(rep, u, hdr="include/proto/dhcpv4.h"):
    """a header validator accepts a field value only if the library's own table for that field has an entry for it: the largest
    accepted value (evaluated on the validator's test) is below the number of table entries (constant-evaluated by clang)"""
    from props import tp
    from rules import r_mpt
    n = 0
    for (fname, field), (table, macro) in sorted(NAME_TABLES.items()):
        fn = u.fn(fname)
        if fn is None or not fn.has_cfg:
            raise driver.AnalysisBroken("anchor %s vanished" % fname)
        rep.functions.add(fname)
        vals = tp.probe(hdr, {"items": "sizeof(%s) / sizeof(%s[0])" % (table, table)}, "c13:table:%s" % table)
        items = vals.get("items")
        if not items:
            raise driver.AnalysisBroken("table %s not evaluated" % table)
        # the largest value of the field that passes every test of the validator mentioning it
        accepted = []
        for v in range(0, items + 3):
            ok = True
            seen = False
            for bid in fn.reachable_blocks():
                c = fn.blocks[bid].cond
                if c is None:
                    continue
                atoms = [y for y, _ in _walk(c) if y.get("k") == "mem" and y["f"] == field]
                if not atoms:
                    continue
                seen = True
                try:
                    r = r_mpt.eval_expr(c, {id(a): v for a in atoms})
                except r_mpt.Unknown:
                    continue
                s_ = fn.blocks[bid].succ[0] if r else fn.blocks[bid].succ[1]
                # an edge straight into a failing return refuses the value
                if s_ is not None and any(e.get("k") == "ret" and (const_val(e.get("e") or {}) or 1) != 0 for e in fn.blocks[s_].elems):
                    ok = False
            if not seen:
                raise driver.AnalysisBroken("%s: no test of ->%s" % (fname, field))
            if ok:
                accepted.append(v)
        n += 1
        hi = max(accepted) if accepted else -1
        desc = "%s accepts ->%s only up to the last entry of %s[] (%d entries)" % (fname, field, table, items)
        (rep.proved if hi < items else rep.violated)("R-TABLE", fn, "accepted-%s-has-a-name" % field, desc, "largest accepted value %d" % hi if hi < items else
                                                     "value %d passes the check, %s[] ends at %d: a lookup of the checked header's %s reads behind the table" % (hi, table, items - 1, field))
    return n


def offset_wrap_rule(rep, u, rel):
    """`need > (size - off)` with both operands of the subtraction unsigned parameters is only a bound if off <= size was
    established first: otherwise the difference wraps and the test passes for every off > size."""
    from rules import r_range
    n = 0
    for fn in u.function_list:
        if fn.relfile() != rel or not fn.has_cfg:
            continue
        pids = {p["id"]: p["n"] for p in fn.params if (u.type(p["t"]) or {}).get("k") == "int" and not u.type(p["t"]).get("sg")}
        for bid in fn.reachable_blocks():
            c = fn.blocks[bid].cond
            if c is None:
                continue
            for y, ps in _walk(c):
                if not (y.get("k") == "bin" and y["op"] == "-"):
                    continue
                a, b = core.strip_casts(y["x"]), core.strip_casts(y["y"])
                if not (core.is_ref(a) and core.is_ref(b) and a.get("id") in pids and b.get("id") in pids):
                    continue
                if not any(q.get("k") == "bin" and q["op"] in ("<", ">", "<=", ">=") for q in ps):
                    continue
                n += 1
                rep.functions.add(fn.name)
                # an ordering test of the two parameters on the way: in the same condition chain (a block that dominates this
                # one or is this one) with an edge that leaves
                ordered = False
                for b2 in fn.reachable_blocks():
                    c2 = fn.blocks[b2].cond
                    if c2 is None or not (fn.dominates(b2, bid)):
                        continue
                    for z, _ in _walk(c2):
                        if z.get("k") == "bin" and z["op"] in ("<", ">", "<=", ">=") and z is not None:
                            l_, r_ = core.strip_casts(z["x"]), core.strip_casts(z["y"])
                            if core.is_ref(l_) and core.is_ref(r_) and {l_.get("id"), r_.get("id")} == {a["id"], b["id"]} and (b2 != bid or not any(w is y for w, _ in _walk(z))):
                                ordered = True
                desc = "%s: `%s` is computed only after %s <= %s was established" % (fn.name, key(y), pids[b["id"]], pids[a["id"]])
                (rep.proved if ordered else rep.violated)("R-WRAP", fn, "difference-of-parameters:%s-%s" % (pids[a["id"]], pids[b["id"]]), desc, "" if ordered else
                                                          "with %s > %s the difference wraps, the capacity test passes and the byte at %s is read behind the buffer" % (pids[b["id"]], pids[a["id"]], pids[b["id"]]), y.get("ln"))
    return n


INOUT = {"ht2sp": ("buf", "ret_buf"), "wsp2sp": ("buf", "ret_buf")}      # (input, output) of the copy-and-convert routines


def output_only_rule(rep, u):
    """a routine that converts from an input buffer into an output buffer stores only through pointers derived from the output"""
    n = 0
    for fname, (src, dst) in sorted(INOUT.items()):
        fn = u.fn(fname)
        if fn is None or not fn.has_cfg:
            raise driver.AnalysisBroken("anchor %s vanished" % fname)
        ids = {p["n"]: p["id"] for p in fn.params}
        if src not in ids or dst not in ids:
            raise driver.AnalysisBroken("%s: parameters %s/%s not found" % (fname, src, dst))
        from_in = {ids[src]}
        from_out = {ids[dst]}
        changed = True
        while changed:
            changed = False
            for pos, root, x, ps in fn.nodes():
                if x.get("k") == "bin" and x["op"] == "=" and core.is_ref(core.strip_casts(x["x"])) and core.strip_casts(x["x"]).get("dk") == "local":
                    l = core.strip_casts(x["x"])["id"]
                    srcs = core.ref_ids(x["y"])
                    # a search result points into the buffer searched (its second argument), not into whatever else is mentioned
                    rhs = core.strip_casts(x["y"])
                    if rhs.get("k") == "call" and (rhs.get("fn") or "").startswith(("mem_chr", "mem_find", "memchr", "memmem")) and len(rhs["args"]) > 1:
                        srcs = core.ref_ids(rhs["args"][0]) | core.ref_ids(rhs["args"][1])
                    if srcs & from_in and l not in from_in:
                        from_in.add(l)
                        changed = True
                    if srcs & from_out and l not in from_out:
                        from_out.add(l)
                        changed = True
        rep.functions.add(fname)
        for pos, root, x, ps in fn.nodes():
            if not (x.get("k") == "bin" and x["op"] in ("=", "|=", "&=", "+=")):
                continue
            l = core.strip_casts(x["x"])
            if not ((l.get("k") == "un" and l["op"] == "*") or l.get("k") == "sub"):
                continue
            b = core.base_ref(l)
            if b is None or b.get("id") in (ids.get("buf_size_ret"),) or (u.type(b["t"]) or {}).get("k") != "ptr":
                continue
            if b["id"] not in from_in and b["id"] not in from_out:
                continue
            n += 1
            bad = b["id"] in from_in and b["id"] not in from_out
            desc = "%s: the store at line %s goes to the output buffer" % (fname, x.get("ln"))
            (rep.proved if not bad else rep.violated)("R-OUTONLY", fn, "store-through:%s" % b["n"], desc, "" if not bad else
                                                      "%s points into the input: %s(in, n, out != in) rewrites the caller's input and leaves the output unconverted" % (b["n"], fname), x.get("ln"))
    return n



def chunk_result_rule(rep, u, fname="http_data_decode_chunked"):
    """every success return of the chunk decoder has stored the data pointer (the legal empty body "0" CRLF CRLF leaves the
    loop before the first chunk: the caller's pointer stayed uninitialised)"""
    from rules import r_mpt
    fn = u.fn(fname)
    if fn is None or not fn.has_cfg:
        raise driver.AnalysisBroken("anchor %s vanished" % fname)
    rep.functions.add(fname)
    outp = [p for p in fn.params if p["n"] == "data_ret"]
    if not outp:
        raise driver.AnalysisBroken("%s: data_ret parameter not found" % fname)
    stores = [pos for pos, root, x, ps in fn.nodes() if x.get("k") == "bin" and x["op"] == "=" and core.strip_casts(x["x"]).get("k") == "un" and core.strip_casts(x["x"])["op"] == "*" and
              core.base_ref(x["x"]) is not None and core.base_ref(x["x"]).get("id") == outp[0]["id"]]
    succ = r_mpt.success_returns(fn)
    bad = [sp for sp in succ if not any(fn.pos_dominates(st, sp) for st in stores)]
    desc = "%s: *data_ret is stored before every success return" % fname
    (rep.violated if bad or not succ else rep.proved)("R-OUTDEF", fn, "data-pointer-always-set", desc,
                                                      "a success return is reachable without a store: \"0\\r\\n\\r\\n\" returns 0 with size 0 and the caller's pointer untouched" if bad else "")
    # the chunk-size parser (ustrh2usize) wraps modulo 2^64: inside the chunk loop the number of significant hex digits is
    # bounded by the width of size_t before the size is used
    loops = fn.loops()
    inloop = set().union(*loops.values()) if loops else set()
    parses = [pos for pos, root, c, ps in fn.calls() if (c.get("fn") or "").startswith(("ustrh2u", "strh2u")) and pos[0] in inloop]
    ok = True
    for pp in parses:
        # (the last-line parse outside a CRLF has its own exit; the in-loop size parse is the one whose result is added up)
        bounded = False
        for bid in inloop:
            c = fn.blocks[bid].cond
            if c is None or not fn.dominates(bid, pp[0]):
                continue
            if any(y.get("k") == "sizeof" or const_val(y) in (16, 8) for y, _ in _walk(c)) and any(any(e.get("k") == "ret" and const_val(e.get("e") or {}) not in (None, 0) for e in fn.blocks[s_].elems)
                                                                                                for s_ in fn.blocks[bid].rsucc()):
                bounded = True
        tail_only = any(e.get("k") == "ret" for s_ in fn.reach_from([pp[0]]) for e in fn.blocks[s_].elems) and not any(
            x.get("k") == "bin" and x["op"] == "+=" for b_ in fn.reach_from([pp[0]]) & inloop for e in fn.blocks[b_].elems for x, _ in _walk(e))
        if not bounded and not tail_only:
            ok = False
    desc = "%s: the chunk size's significant hex digits are bounded by the width of size_t before it is used" % fname
    (rep.proved if ok and parses else rep.violated)("R-OUTDEF", fn, "chunk-size-fits", desc, "" if ok and parses else
                                                    "\"10000000000000005\" (17 digits) wraps to 5 in the lenient hex parser and the body 'hello' is accepted as that chunk")
    return 2


def cache_type_flag_rule(rep, u, fname="dns_rslvr_cache_entry_data_add"):
    """a refresh that brings no data (NXDOMAIN, error, timeout) keeps the stored data - and so must keep what says how to read it:
    on the no-data path the CNAME flag of the entry flows into the flags written back (or the data is dropped).  Otherwise the
    stored alias text, whose count is its length in bytes, is read as that many 26-byte address records."""
    fn = u.fn(fname)
    if fn is None or not fn.has_cfg:
        raise driver.AnalysisBroken("anchor %s vanished" % fname)
    rep.functions.add(fname)
    cnt = [p for p in fn.params if p["n"] == "data_count"]
    if not cnt:
        raise driver.AnalysisBroken("%s: data_count parameter not found" % fname)
    from props.c16_audit import _follow
    wr = [pos for pos, root, x, ps in fn.nodes() if x.get("k") == "bin" and x["op"] == "=" and key(core.strip_casts(x["x"])).endswith("cache_entry->flags")]
    if not wr:
        raise driver.AnalysisBroken("%s: the write-back of the entry flags not found" % fname)
    keep = set()
    for pos, root, x, ps in fn.nodes():
        if x.get("k") == "bin" and x["op"] in ("|=", "=") and core.is_ref(core.strip_casts(x["x"]), name="flags") and any(y.get("k") == "mem" and y["f"] == "flags" for y, _ in _walk(x["y"])):
            keep.add(pos[0])
        if x.get("k") == "call" and x.get("fn") == "free" and "pdata" in key(x):
            keep.add(pos[0])
    reach = _follow(fn, fn.entry, cnt[0]["id"], 0, stop=keep)
    bad = [w for w in wr if w[0] in reach and w[0] not in keep]
    desc = "%s: with no new data the stored data keeps its type flag (or is dropped)" % fname
    (rep.violated if bad else rep.proved)("R-TYPEFLAG", fn, "no-data-keeps-type", desc,
                                          "cache_entry->flags is overwritten with the flags of the empty answer while pdata / data_count stay: 'x CNAME y' (ttl 1), then NXDOMAIN on "
                                          "refresh, then a lookup copies six 26-byte records out of the 8-byte alias block" if bad else "")
    return 1



def sdp_high_byte_rule(rep, u, fname="sdp_msg_sec_chk"):
    """the byte scan of the SDP check refuses what its own rule 3 lists: a byte above 126 reaches the refusing return (the test
    stood behind `> 31 -> continue` and was dead code).  The loop body is evaluated for the bytes 0x7f, 0x80, 0xff and 'a'."""
    from rules import r_mpt
    fn = u.fn(fname)
    if fn is None or not fn.has_cfg:
        raise driver.AnalysisBroken("anchor %s vanished" % fname)
    rep.functions.add(fname)
    loops = fn.loops()
    heads = [h for h, b in loops.items() if any(x.get("k") == "un" and x.get("op") == "*" for bb in b for e in fn.blocks[bb].elems for x, _ in walk(e))]
    if not heads:
        raise driver.AnalysisBroken("%s: scan loop not found" % fname)
    h = heads[-1]
    body = loops[h]
    first = [s_ for s_ in fn.blocks[h].succ if s_ in body][0]
    n = 0
    for byte, refused in ((0x7f, True), (0x80, True), (0xff, True), (0x61, False)):
        b = first
        verdict = None
        for _step in range(40):
            blk = fn.blocks[b]
            rets = [e for e in blk.elems if e.get("k") == "ret"]
            if rets:
                verdict = ("ret", const_val(rets[-1].get("e") or {}))
                break
            if b == h and _step:
                verdict = ("continue", None)
                break
            c = blk.cond
            if c is None or len(blk.succ) != 2:
                nxt = [s_ for s_ in blk.rsucc() if s_ is not None]
                if len(nxt) != 1:
                    break
                b = nxt[0]
                continue
            atoms = [y for y, _ in _walk(c) if y.get("k") == "un" and y["op"] == "*"]
            try:
                v = r_mpt.eval_expr(c, {id(a): byte for a in atoms})
            except r_mpt.Unknown:
                break
            b = blk.succ[0] if v else blk.succ[1]
        n += 1
        inst = "byte-0x%02x" % byte
        desc = "%s: byte 0x%02x is %s" % (fname, byte, "refused" if refused else "passed")
        if verdict is None:
            rep.undecided("R-CLASS", fn, inst, desc, "not evaluated")
        elif refused == (verdict[0] == "ret" and verdict[1] not in (None, 0)):
            rep.proved("R-CLASS", fn, inst, desc, str(verdict))
        else:
            rep.violated("R-CLASS", fn, inst, desc, "%s: the `> 126` test stands behind `> 31 -> continue` and never runs; DEL and every byte above it pass" % (verdict,))
    return n


def queued_task_rule(rep, u, fname="dns_resolver_recv_cb"):
    """a reply is matched to a task by its 16-bit id alone; a task queued behind another lookup of the same name has no cache
    entry yet (nothing was sent under its id): task->cache_entry is tested before it is followed"""
    fn = u.fn(fname)
    if fn is None or not fn.has_cfg:
        raise driver.AnalysisBroken("anchor %s vanished" % fname)
    rep.functions.add(fname)
    derefs = [pos for pos, root, x, ps in fn.nodes() if x.get("k") == "mem" and x.get("arrow") and core.strip_casts(x["b"]).get("k") == "mem" and core.strip_casts(x["b"])["f"] == "cache_entry"
              and key(core.strip_casts(x["b"])).startswith("task->")]
    if not derefs:
        raise driver.AnalysisBroken("%s: uses of task->cache_entry not found" % fname)
    tests = []
    for bid in fn.reachable_blocks():
        c = fn.blocks[bid].cond
        if c is None:
            continue
        for y, _ in walk(c):
            if y.get("k") == "bin" and y["op"] in ("==", "!=") and any(core.strip_casts(y[k_]).get("k") == "mem" and core.strip_casts(y[k_])["f"] == "cache_entry" and
                                                                         not core.strip_casts(y[k_]).get("x") for k_ in ("x", "y")):
                if "task->cache_entry" in key(y) and "cache_entry->" not in key(y):
                    tests.append(bid)
    ok = bool(tests) and all(any(fn.dominates(t_, d_[0]) and t_ != d_[0] for t_ in tests) for d_ in derefs)
    desc = "%s: task->cache_entry is compared with NULL before it is dereferenced" % fname
    (rep.proved if ok else rep.violated)("R-NULLQ", fn, "queued-task-has-no-entry", desc, "%d uses behind the test" % len(derefs) if ok else
                                         "two lookups of one name: the second task is queued with cache_entry = NULL but stays findable by id; a reply carrying that id is a NULL "
                                         "dereference in the receive path")
    return 1
