"""C03 — ECDSA / GOST R 34.10 signatures.

Decided clauses (see DESIGN.md section C03):
  * R-ERR  no status of bn_*/ec_*/ecdsa_* dropped in crypto/dsa/ecdsa.h
           ("never reports success when an internal computation failed")
  * R-MPT  verifier accept path dominated by the range checks of r and s, the
           infinity test and the final comparison; signer success dominated
           by key range, r != 0, s != 0
  * R-CFGX switch(curve->algo) covers ECDSA and GOST and defaults to an error
  * R-SIB  _be/_le sibling agreement; R-BOUND byte-API read lengths (shared
           with C09, implemented in rules/r_bound.py)
Not decided: agreement with an independent standard-conforming implementation.
"""
from rules import driver, core, r_err, r_mpt
from rules.core import key, strip_casts, const_val
from props import common, fixtures

ECDSA_H = "include/crypto/dsa/ecdsa.h"

EXCEPTIONS = {}

TRUSTED = ["clang 14 front end + CFG builder", "tool/lcbfacts.cc", "rules/core.py dominators/reachability",
           "python3"]


def units(tier):
    us = [common.ecdsa_unit("ecdsa:default"), common.ecdsa_unit("ecdsa:test", common.EC_TEST_DEFS)]
    if tier == "thorough":
        for w in (32, 64):
            for cc in (0, 1):
                for chk in (0, 1):
                    defs = ["BN_DIGIT_BIT_CNT=%d" % w, "BN_BIT_LEN=1408"]
                    if cc:
                        defs.append("BN_CC_MULL_DIV=1")
                    if chk:
                        defs.append("EC_DISABLE_PUB_KEY_CHK=1")
                    us.append(common.ecdsa_unit("ecdsa:w%d:cc%d:nochk%d" % (w, cc, chk), defs))
    return us


def _p(fn, idx):
    return lambda a: r_mpt.is_param(fn, a, idx)


def guards(rep, u):
    cmp_dom, cmp_lt = (-1, 0, 1), (-1,)
    for name in ("ecdsa_verify", "ecdsa_verify_priv_key"):
        fn = u.fn(name)
        if fn is None:
            raise driver.AnalysisBroken("anchor %s vanished" % name)
        rep.functions.add(name)
        curve_n = r_mpt.addr_of_field(_p(fn, 0), "n")
        r_mpt.check_guard(rep, fn, "bn_cmp(sign_r, n)", r_mpt.call_atom("bn_cmp", [_p(fn, 2), curve_n]), cmp_dom, cmp_lt)
        r_mpt.check_guard(rep, fn, "bn_cmp(sign_s, n)", r_mpt.call_atom("bn_cmp", [_p(fn, 3), curve_n]), cmp_dom, cmp_lt)
        # lower end of [1, n-1]: r = 0 makes u2 = 0 and R = u1*G - on a curve whose base point has x = 0 (CryptoPro-C, XchB)
        # (r = 0, s = e) then verifies under every public key; s = 0 is refused only because the inverse fails
        r_mpt.check_guard(rep, fn, "bn_is_zero(sign_r)", r_mpt.call_atom("bn_is_zero", [_p(fn, 2)]), (0, 1), (0,))
        r_mpt.check_guard(rep, fn, "bn_is_zero(sign_s)", r_mpt.call_atom("bn_is_zero", [_p(fn, 3)]), (0, 1), (0,))
        r_mpt.check_guard(rep, fn, "R.infinity", r_mpt.field_atom("infinity"), (0, 1), (0,))
        # final comparison v == r : bn_cmp(<local>, sign_r) or bn_cmp(sign_r, <local>)
        def final_cmp(n, parents, fn=fn):
            if n.get("k") != "call" or n.get("fn") != "bn_cmp" or len(n["args"]) != 2:
                return False
            a, b = n["args"]
            pa, pb = r_mpt.param_index(fn, a), r_mpt.param_index(fn, b)
            return (pa == 2 and pb is None) or (pb == 2 and pa is None and
                                                not r_mpt.addr_of_field(None, "n")(b))
        r_mpt.check_guard(rep, fn, "bn_cmp(v, sign_r)", final_cmp, cmp_dom, (0,))
        if name == "ecdsa_verify_priv_key":
            r_mpt.check_guard(rep, fn, "bn_cmp(priv_key, n)", r_mpt.call_atom("bn_cmp", [_p(fn, 4), curve_n]), cmp_dom, cmp_lt)
            # d in [1, n-1]: with d = 0 the check u1 + u2*d degenerates and (r = Gx, s = e) verifies
            r_mpt.check_guard(rep, fn, "bn_is_zero(priv_key)", r_mpt.call_atom("bn_is_zero", [_p(fn, 4)]), (0, 1), (0,))
        else:
            # Q != O: the one-byte encoding 00 imports as the point at infinity; u2*O vanishes and (r = Gx, s = e) verifies
            r_mpt.check_guard(rep, fn, "pub_key->infinity", lambda n_, ps_, fn=fn: n_.get("k") == "mem" and n_.get("f") == "infinity" and
                              core.strip_casts(n_["b"]).get("k") == "ref" and core.strip_casts(n_["b"]).get("dk") == "parm", (0, 1), (0,))
    fn = u.fn("ecdsa_sign")
    if fn is None:
        raise driver.AnalysisBroken("anchor ecdsa_sign vanished")
    rep.functions.add("ecdsa_sign")
    curve_n = r_mpt.addr_of_field(_p(fn, 0), "n")
    r_mpt.check_guard(rep, fn, "bn_cmp(priv_key, n)", r_mpt.call_atom("bn_cmp", [_p(fn, 2), curve_n]), (-1, 0, 1), (-1,))
    r_mpt.check_guard(rep, fn, "bn_is_zero(sign_s)", r_mpt.call_atom("bn_is_zero", [_p(fn, 5)]), (0, 1), (0,))
    # r != 0: bn_is_zero(&<local>.x) before r is stored
    def rzero(n, parents):
        if n.get("k") != "call" or n.get("fn") != "bn_is_zero":
            return False
        a = core.strip_casts(n["args"][0])
        return a.get("k") == "un" and a["op"] == "&" and core.strip_casts(a["e"]).get("k") == "mem" \
            and core.strip_casts(a["e"])["f"] == "x"
    r_mpt.check_guard(rep, fn, "bn_is_zero(R.x)", rzero, (0, 1), (0,))
    algos = {"EC_CURVE_ALGO_ECDSA": 0, "EC_CURVE_ALGO_GOST20XX": 1}
    n = 0
    for name in ("ecdsa_sign", "ecdsa_verify", "ecdsa_verify_priv_key"):
        n += r_mpt.check_switch_exhaustive(rep, u.fn(name), lambda c: key(c).endswith("->algo"), algos, u,
                                           inst="switch(curve->algo)")
    return n


READERS0 = ("bn_cmp", "bn_is_", "bn_calc_", "bn_export", "bn_digits", "bn_get", "ec_point_is_", "ec_point_check", "ec_curve_")


def alias_rule(rep, u):
    """callers pass the same object for two parameters of ecdsa_* workers (hash == sign_r, rnd == sign_s, priv_key == shared):
    in the callee, once the object has been written through one parameter name the other name is not used any more"""
    from rules.core import walk, strip_casts
    pairs = {}
    for fn in u.function_list:
        if fn.relfile() != ECDSA_H or not fn.has_cfg or fn.name.endswith("self_test"):
            continue
        for pos, root, c, ps in fn.calls():
            callee = u.functions.get(c.get("fn"))
            if callee is None or callee.relfile() != ECDSA_H or not callee.has_cfg:
                continue
            ks = [key(strip_casts(a)) for a in c["args"]]
            for i in range(len(ks)):
                for j in range(i + 1, len(ks)):
                    if ks[i] == ks[j] and ks[i].startswith("&") and i < len(callee.params) and j < len(callee.params):
                        pairs.setdefault((callee.name, i, j), []).append((fn.name, c.get("ln")))
    n = 0
    for (cname, i, j), sites in sorted(pairs.items()):
        callee = u.functions[cname]
        A, B = callee.params[i]["n"], callee.params[j]["n"]
        rep.functions.add(cname)
        uses = {A: [], B: []}
        writes = {A: [], B: []}
        for pos, root, c, ps in callee.calls():
            for ai, a in enumerate(c["args"]):
                a0 = strip_casts(a)
                if a0.get("k") == "ref" and a0["n"] in (A, B):
                    uses[a0["n"]].append((pos, c))
                    nm = c.get("fn") or ""
                    if ai == 0 and nm.startswith(("bn_", "ec_")) and not nm.startswith(READERS0):
                        writes[a0["n"]].append((pos, c))
        for pos, root, x, ps in callee.nodes():
            if x.get("k") == "bin" and x["op"].endswith("=") and x["op"] not in ("==", "!=", "<=", ">="):
                l = strip_casts(x["x"])
                for y, _ in walk(l):
                    if y.get("k") == "ref" and y["n"] in (A, B) and l.get("k") != "ref":
                        writes[y["n"]].append((pos, x))
        n += 1
        inst = "alias:%s=%s" % (A, B)
        desc = "%s is called with %s and %s naming one object (%s): after a write through one name the other name is not used" % (
            cname, A, B, ", ".join("%s:%s" % s_ for s_ in sites[:3]))
        bad = None
        for w_name, o_name in ((A, B), (B, A)):
            for wpos, wc in writes[w_name]:
                for upos, uc in uses[o_name]:
                    if uc is wc:
                        continue
                    after = (upos[0] == wpos[0] and upos[1] > wpos[1]) or (upos[0] != wpos[0] and upos[0] in callee.reach_from([wpos[0]]) and upos[0] != wpos[0])
                    if upos[0] == wpos[0] and upos[1] <= wpos[1]:
                        after = upos[0] in callee.reach_from(callee.blocks[wpos[0]].rsucc()) if False else False
                    if after:
                        bad = bad or "'%s' is used at line %s after the object was written through '%s' at line %s" % (
                            o_name, uc.get("ln"), w_name, wc.get("ln"))
        if bad:
            rep.violated("R-ALIAS", callee, inst, desc, bad)
        else:
            rep.proved("R-ALIAS", callee, inst, desc, "%d writes through %s, %d through %s; no later use of the other name" % (
                len(writes[A]), A, len(writes[B]), B))
    return n


def hash_length_rule(rep, u):
    """The message hash is truncated to the curve size (leftmost bytes), never to a caller-supplied length: in every byte
    level entry point the length handed to the bignum import of `hash` is MIN(hash_size, B) where B is a local whose only
    definitions are computed from the curve."""
    from rules.core import walk, strip_casts
    n = 0
    for fn in u.function_list:
        if fn.relfile() != ECDSA_H or not fn.has_cfg:
            continue
        pn = {p["n"] for p in fn.params}
        if not {"hash", "hash_size"} <= pn:
            continue
        for pos, root, c, ps in fn.calls():
            if not (c.get("fn") or "").startswith("bn_import_") or len(c["args"]) < 3:
                continue
            if not core.is_ref(strip_casts(c["args"][1]), name="hash"):
                continue
            n += 1
            rep.functions.add(fn.name)
            ln_ = c["args"][2]
            l0 = strip_casts(ln_)
            if l0.get("k") == "ref" and l0.get("dk") == "local":
                # a local that holds the length: look at its (single) definition
                ds_ = [x["y"] for _p, _r, x, _ps in fn.nodes() if x.get("k") == "bin" and x["op"] == "=" and core.is_ref(strip_casts(x["x"]), id=l0.get("id"))]
                if len(ds_) == 1:
                    ln_ = ds_[0]
            names = {r["n"]: r for r in core.refs(ln_)} if ln_.get("k") != "lazy" else {r["n"]: r for r in core.refs(ln_.get("lz") or ln_)}
            inst = "hash-length:%s" % c["fn"]
            desc = "%s imports the hash truncated to the curve size: MIN(hash_size, <curve bytes>)" % fn.name
            others = [r for nm, r in names.items() if nm != "hash_size"]
            if "hash_size" not in names or len(others) != 1:
                rep.violated("R-SIB", fn, inst, desc, "length expression is %s" % key(ln_)[:80], c.get("ln"))
                continue
            o = others[0]
            defs = [x["y"] for _p, _r, x, _ps in fn.nodes() if x.get("k") == "bin" and x["op"] == "=" and core.is_ref(strip_casts(x["x"]), id=o.get("id"))]
            for _p, _r, x, _ps in fn.nodes():
                if x.get("k") == "decl":
                    defs += [v["init"] for v in x.get("vars", []) if v.get("id") == o.get("id") and v.get("init") is not None]
            from_curve = o.get("dk") == "local" and defs and all(any(r["n"] == "curve" for r in core.refs(d.get("lz") or d)) or "curve" in key(d) for d in defs)
            if from_curve:
                rep.proved("R-SIB", fn, inst, desc, "MIN(hash_size, %s), %s computed from the curve" % (o["n"], o["n"]), c.get("ln"))
            else:
                rep.violated("R-SIB", fn, inst, desc, "the hash is cut to MIN(hash_size, %s) and '%s' is %s, not the curve size: a hash longer than that "
                             "is truncated differently from what the signer and the bignum-level verifier use" % (
                                 o["n"], o["n"], "a parameter of the call" if o.get("dk") == "parm" else "not derived from the curve"), c.get("ln"))
    return n


def hash_bits_rule(rep, u):
    """X9.62 7.3 / SEC 1 4.1.3 / FIPS 186-4 6.4: e is the leftmost bitlen(n) bits of the hash - n the ORDER.  Wherever the
    caller's hash bytes are imported, the byte bound comes from bn_calc_bits(&curve->n) (the order can be one bit longer than
    the field: secp160*, secp224k1; or not a whole number of bytes: secp521r1), the excess low bits are shifted out, and
    the little-endian flavour takes the LAST bytes (its most significant ones)."""
    from rules.core import walk, strip_casts
    n = 0
    for fn in u.function_list:
        if fn.relfile() != ECDSA_H or not fn.has_cfg:
            continue
        pn = {p["n"] for p in fn.params}
        if not {"hash", "hash_size"} <= pn:
            continue
        for pos, root, c, ps in fn.calls({"bn_import_be_bin", "bn_import_le_bin"}):
            src = core.base_ref(c["args"][1])
            if src is None or src["n"] != "hash":
                continue
            n += 1
            rep.functions.add(fn.name)
            le = c["fn"] == "bn_import_le_bin"
            # every local the length depends on, transitively
            seen, work, from_order = set(), [c["args"][2]], False
            while work:
                e = work.pop()
                for y, _ in walk(e.get("lz") if e.get("k") == "lazy" and e.get("lz") is not None else e):
                    if y.get("k") == "call" and y.get("fn") == "bn_calc_bits" and any(z.get("k") == "mem" and z["f"] == "n" for z, _ in walk(y["args"][0])):
                        from_order = True
                    if y.get("k") == "ref" and y.get("dk") == "local" and y["n"] not in seen:
                        seen.add(y["n"])
                        work += [x["y"] for _p, _r, x, _ps in fn.nodes() if x.get("k") == "bin" and x["op"] == "=" and core.is_ref(strip_casts(x["x"]), name=y["n"])]
            dst = core.base_ref(c["args"][0])
            shifted = any(core.base_ref(c2["args"][0]) is not None and dst is not None and core.base_ref(c2["args"][0])["n"] == dst["n"] and
                          p2[0] in fn.reach_from([pos[0]]) for p2, r2, c2, _ in fn.calls({"bn_r_shift"}))
            tail = (not le) or any(y.get("k") == "bin" and y["op"] == "-" and any(core.is_ref(z, name="hash_size") for z, _ in walk(y)) for y, _ in walk(c["args"][1]))
            desc = "%s: e is the leftmost bitlen(n) bits of the hash (n = order of the base point)" % fn.name
            bad = []
            if not from_order:
                bad.append("the byte bound is not derived from bn_calc_bits(&curve->n) (the field's byte length is one bit short for secp160r1/secp224k1: "
                           "SHA-256 signatures are rejected by and do not verify under a conforming implementation)")
            if not shifted:
                bad.append("the bits beyond bitlen(n) are not shifted out (secp521r1 with a 66-byte hash)")
            if not tail:
                bad.append("the little-endian flavour imports the first (least significant) bytes")
            (rep.violated if bad else rep.proved)("R-SPEC", fn, "hash-leftmost-bits:%s" % c["fn"], desc, "; ".join(bad) if bad else
                                                  "bound from the order, excess bits shifted%s" % (", most significant bytes taken" if le else ""), c.get("ln"))
    return n


def _order_derived(fn, e, depth=0):
    """does the size expression depend on bitlen(curve->n)?  (locals are followed to their definitions)"""
    from rules.core import walk, strip_casts
    e = e.get("lz") if e.get("k") == "lazy" and e.get("lz") is not None else e
    for y, _ in walk(e):
        y = y.get("lz") if y.get("k") == "lazy" and y.get("lz") is not None else y
        if y.get("k") == "call" and y.get("fn") == "bn_calc_bits" and any(z.get("k") == "mem" and z["f"] == "n" for z, _ in walk(y["args"][0])):
            return True
        if y.get("k") == "ref" and y.get("dk") == "local" and depth < 3:
            for _p, _r, x, _ps in fn.nodes():
                if x.get("k") == "bin" and x["op"] == "=" and core.is_ref(strip_casts(x["x"]), name=y["n"]) and _order_derived(fn, x["y"], depth + 1):
                    return True
    return False


def order_bytes_rule(rep, u, curves, what="sign"):
    """r, s and private keys are numbers below the ORDER n.  The byte-level functions limit (and produce) them with a byte
    count; when that count is the FIELD's, (m + 7) / 8, it is the right one only while bytelen(n) <= bytelen(p) - decided
    from the built-in curve table.  what='sign': the limit on sign_size and the size r, s are exported with;
    what='key': the limit on priv_key_size."""
    from rules.core import walk, strip_casts
    n = 0
    wide = [(nm, nb, m) for nm, nb, m in curves if (nb + 7) // 8 > (m + 7) // 8]
    pname = "sign_size" if what == "sign" else "priv_key_size"
    for fn in u.function_list:
        if fn.relfile() != ECDSA_H or not fn.has_cfg or not fn.name.endswith(("_be", "_le")):
            continue
        pn = {p["n"] for p in fn.params}
        if pname not in pn:
            continue
        sizes = []
        for bid in fn.reachable_blocks():
            cnd = fn.blocks[bid].cond
            if cnd is None:
                continue
            for y, _ in walk(cnd):
                if y.get("k") == "bin" and y["op"] in ("<", ">", "<=", ">="):
                    a, b = strip_casts(y["x"]), strip_casts(y["y"])
                    for v, o in ((a, b), (b, a)):
                        if core.is_ref(v, name=pname) and not core.is_ref(o, name="rnd_size"):
                            sizes.append(o)
        if what == "sign":
            for pos, root, c, ps in fn.calls({"bn_export_be_bin", "bn_export_le_bin"}):
                dst = core.base_ref(c["args"][2]) if len(c["args"]) > 3 else None
                if dst is not None and dst["n"] in ("sign_r", "sign_s"):
                    sizes.append(c["args"][3])
        if not sizes:
            continue
        n += 1
        rep.functions.add(fn.name)
        inst = "order-fits-size-limit" if what == "sign" else "order-fits-key-size-limit"
        desc = "%s: every %s below the order fits the size this function accepts / produces, on every built-in curve" % (
            fn.name, "r, s" if what == "sign" else "private key")
        field_only = [key(x)[:40] for x in sizes if not _order_derived(fn, x)]
        if field_only and wide:
            rep.violated("R-SPEC", fn, inst, desc, "the size %s comes from the field, (m + 7) / 8, but the order is a byte longer on %s: %s" % (
                field_only[0], ", ".join("%s (%d > %d bits)" % w for w in wide[:5]),
                "a valid signature with s in [2^(8*bytes), n - 1] is refused with EINVAL (or cannot be exported)" if what == "sign" else
                "the private keys in [2^m, n - 1] (d = n - 1) are refused with EINVAL although the bn_t level accepts them"))
        else:
            rep.proved("R-SPEC", fn, inst, desc, "sizes derived from the order" if not field_only else "bytelen(n) <= bytelen(p) for all %d curves" % len(curves))
    return n


def reduce_rule(rep, u, fname="bn_mod_reduce"):
    """the signature equations take e, k, s 'mod n': the reduction helper may skip its work only for an operand that is
    strictly below the modulus.  For bn_cmp(bn, m) in {0, 1} every path to a return passes the reducing call."""
    fn = u.fn(fname)
    if fn is None or not fn.has_cfg:
        raise driver.AnalysisBroken("anchor %s vanished" % fname)
    rep.functions.add(fname)
    red = {pos[0] for pos, root, c, ps in fn.calls({"bn_mod", "bn_div", "bn_sub"})}
    rets = r_mpt.success_returns(fn)
    atom = r_mpt.call_atom("bn_cmp", [_p(fn, 0), _p(fn, 1)])
    desc = "%s leaves its operand unreduced only when it is strictly below the modulus (bn_cmp == -1)" % fname
    found = False
    bad = None
    for bid, cond, a in r_mpt.branches_with(fn, atom):
        found = True
        for v in (0, 1):
            s_, known = r_mpt.edge_for_value(fn, bid, cond, a, v)
            if not known:
                bad = bad or "condition at line %s not evaluable" % cond.get("ln")
            elif r_mpt.can_reach(fn, s_, rets, avoid=list(red) + [bid]):
                bad = bad or "for bn_cmp == %d (operand %s the modulus) a success return is reached without the reducing call" % (v, "equal to" if v == 0 else "above")
        s_, known = r_mpt.edge_for_value(fn, bid, cond, a, -1)
    if not found:
        rep.violated("R-MPT", fn, "reduce-skip", desc, "no test of bn_cmp(operand, modulus)")
    elif bad:
        rep.violated("R-MPT", fn, "reduce-skip", desc, bad)
    else:
        rep.proved("R-MPT", fn, "reduce-skip", desc, "edges for 0 and 1 pass the reduction")
    return 1


def _nonneg_by_form(e):
    e = strip_casts(e)
    if const_val(e) is not None:
        return const_val(e) >= 0
    k = e.get("k")
    if k == "bin" and e["op"] == "&":
        return any(const_val(strip_casts(s_)) is not None and const_val(strip_casts(s_)) >= 0 for s_ in (e["x"], e["y"]))
    if k == "bin" and e["op"] in ("<", ">", "<=", ">=", "==", "!=", "&&", "||"):
        return True
    if k == "bin" and e["op"] in ("%", ">>"):
        return _nonneg_by_form(e["x"])
    if k == "cond":
        return _nonneg_by_form(e["x"]) and _nonneg_by_form(e["y"])
    if k == "lazy" and e.get("lz") is not None:
        return _nonneg_by_form(e["lz"])
    if k == "un" and e.get("op") == "!":
        return True
    return False


def sign_rule(rep, u, files=("include/math/big_num.h", "include/math/elliptic_curve.h", ECDSA_H), digit_type="bn_digit_t"):
    """R-SIGN: a signed value converted to a digit (bn_digit_t) enters unsigned multi-digit arithmetic as 2^N - |v| when it is
    negative: an 'add' becomes a subtraction without borrow and vice versa.  Every such conversion is of a value that is
    non-negative by form (mask, comparison, constant), of a variable on the non-negative side of a dominating sign test, or
    of the negation of a variable on its negative side."""
    from rules import r_range
    n = 0
    seen = set()
    for fn in u.function_list:
        if not fn.has_cfg or fn.relfile() not in files or fn.name.endswith("self_test"):
            continue
        for pos, root, x, ps in fn.nodes():
            if not (x.get("k") == "cast" and "t" in x and "cv" not in x and "t" in x["e"]):
                continue
            if digit_type not in (u.tstr(x["t"]) or ""):
                continue
            te = u.type(x["e"]["t"])
            if not (te["k"] == "int" and te.get("sg")):
                continue
            e = strip_casts(x["e"])
            if const_val(e) is not None:
                continue
            kk = (fn.name, x.get("ln"), key(e))
            if kk in seen:
                continue
            seen.add(kk)
            n += 1
            rep.functions.add(fn.name)
            inst = "sign:%s@%s#%d" % (key(e)[:40], fn.name, sum(1 for q in seen if q[0] == fn.name))
            desc = "%s: the signed value %s converted to a digit at line %s is not negative" % (fn.name, key(e)[:60], x.get("ln"))
            if _nonneg_by_form(e):
                rep.proved("R-SIGN", fn, inst, desc, "non-negative by form", x.get("ln"))
                continue
            neg = e.get("k") == "un" and e.get("op") == "-"
            v = strip_casts(e["e"]) if neg else e
            if v.get("k") != "ref":
                rep.undecided("R-SIGN", fn, inst, desc, "operand is not a variable, a negated variable or a non-negative form", x.get("ln"))
                continue
            probe = 1 if neg else -1
            ok = False
            for bid, c, atom in r_range.guards_for(fn, pos, key(v)):
                s_, known = r_mpt.edge_for_value(fn, bid, c, atom, probe)
                if not known:
                    continue
                if s_ is None or pos[0] not in fn.reach_from([s_], avoid=[bid]):
                    other = [y for y in fn.blocks[bid].rsucc() if y != s_]
                    if not any(r_range.written_between(fn, bid, o, pos, core.ref_ids(v)) for o in other):
                        ok = True
                        why = "the sign test at line %s keeps %s %s here" % (c.get("ln"), v["n"], "negative" if neg else "non-negative")
                        break
            if ok:
                rep.proved("R-SIGN", fn, inst, desc, why, x.get("ln"))
            else:
                rep.violated("R-SIGN", fn, inst, desc, "no dominating sign test: when %s is %s the digit is 2^N - |%s| and the carry/borrow out of "
                             "the low digit is lost or invented" % (v["n"], "positive" if neg else "negative", v["n"]), x.get("ln"))
    return n


def hash_reduction_rule(rep, u):
    """e = H mod n.  bn_mod_reduce() is the key-range mapping (x mod (n - 1)) + 1 used for private keys and nonces; applied
    to the hash it yields a different e for every hash >= n (a third of all SHA-256 digests on brainpoolP256r1, half of
    the 256-bit GOST hashes on CryptoPro-B) and the signature no longer interoperates.  In the three workers the number
    that received the hash is reduced with a plain modular reduction."""
    n = 0
    names = ["ecdsa_sign", "ecdsa_verify", "ecdsa_verify_priv_key"] + sorted(
        f.name for f in u.function_list if f.relfile() == ECDSA_H and f.has_cfg and any(p_["n"] == "hash" for p_ in f.params) and
        any(c.get("fn") in ("bn_mod_reduce", "bn_mod") for _p, _r, c, _ps in f.calls()) and f.name not in ("ecdsa_sign", "ecdsa_verify", "ecdsa_verify_priv_key"))
    for name in names:
        fn = u.fn(name)
        if fn is None:
            raise driver.AnalysisBroken("anchor %s vanished" % name)
        rep.functions.add(name)
        hp = fn.params[1]["n"] if name != "ecdsa_sign" else fn.params[1]["n"]
        holders = set()
        for _p, _r, c, _ps in fn.calls({"bn_assign", "bn_assign_init", "bn_import_be_bin", "bn_import_le_bin"}):
            s0 = core.base_ref(c["args"][1])
            d0 = core.base_ref(c["args"][0])
            if s0 is not None and d0 is not None and s0.get("dk") == "parm" and s0["n"] == "hash":
                holders.add(d0["n"])
        if not holders:
            rep.undecided("R-DOMAIN", fn, "hash-reduction", "%s reduces the hash with a plain reduction modulo n" % name, "no copy of the hash parameter found")
            continue
        for _p, _r, c, _ps in fn.calls({"bn_mod_reduce", "bn_mod", "bn_mod_small"}):
            a0 = core.base_ref(c["args"][0])
            if a0 is None or a0["n"] not in holders:
                continue
            n += 1
            desc = "%s reduces the hash with a plain reduction modulo n" % name
            ok = c["fn"] != "bn_mod_reduce"
            (rep.proved if ok else rep.violated)(
                "R-DOMAIN", fn, "hash-reduction", desc,
                c["fn"] if ok else "bn_mod_reduce (the key mapping (x mod (n-1)) + 1) at line %s: for a hash >= n the value differs from H mod n, other "
                "implementations reject the signature and theirs is rejected here" % c.get("ln"), c.get("ln"))
    return n


def run(rep, tier):
    us = driver.load_units(units(tier))
    rep.use_units(us)
    n_err = 0
    n_sw = 0
    for label, u in us.items():
        S, _ = r_err.status_functions(u)
        if len(S) < 120:
            raise driver.AnalysisBroken("status-function set collapsed to %d" % len(S))
        for fn in u.function_list:
            if fn.relfile() != ECDSA_H or fn.name.endswith("self_test"):
                continue
            rep.functions.add(fn.name)
            n = r_err.check(rep, fn, S, EXCEPTIONS)
            if label == "ecdsa:default":
                n_err += n
        n = guards(rep, u)
        if label == "ecdsa:default":
            n_sw = n
    rep.floor("R-ERR call sites in ecdsa.h", n_err, 190)
    rep.floor("switch(curve->algo) sites", n_sw, 3)
    rep.floor("aliased-argument call shapes", alias_rule(rep, us["ecdsa:default"]), 3)
    rep.floor("hash import sites", hash_length_rule(rep, us["ecdsa:default"]), 1)
    rep.floor("hash-to-number conversions", hash_bits_rule(rep, us["ecdsa:default"]), 2)
    reduce_rule(rep, us["ecdsa:default"])
    rep.floor("hash reductions", hash_reduction_rule(rep, us["ecdsa:default"]), 3)
    from props import c03_audit
    rep.floor("multiplication results read in ecdsa.h", c03_audit.infinity_rule(rep, us["ecdsa:default"]), 3)
    rep.floor("signed-to-digit conversions", sum(sign_rule(rep, u_) for u_ in us.values()) // len(us), 4)
    # the signer's k*G and the private-key verifier run the fixed-base comb: it reads scalar bits only below the table's
    # capacity (C02's rule, with the curve table it needs)
    from props import c02
    del c02.CURVES[:]
    c02.curve_table(rep, us["ecdsa:default"])
    ncap = sum(c02.comb_capacity(rep, u_, list(c02.CURVES)) for u_ in us.values())
    rep.floor("comb multipliers", ncap, 1)
    rep.floor("signature-size functions", order_bytes_rule(rep, us["ecdsa:default"], list(c02.CURVES)), 4)
    rep.floor("private-key-size functions", order_bytes_rule(rep, us["ecdsa:default"], list(c02.CURVES), what="key"), 2)
    from props import c09
    c09.byte_api(rep, us, "C03")
    return driver.finish(
        rep, "other",
        "Static analysis of crypto/dsa/ecdsa.h in %d configurations. Decided: (1) no bn_/ec_/ecdsa_ status is "
        "dropped (so a failed internal computation cannot be followed by a success return); (2) accept path of "
        "ecdsa_verify/ecdsa_verify_priv_key and success path of ecdsa_sign are dominated by the range/zero/infinity/"
        "equality tests with the right polarity; (3) switch(curve->algo) exhaustive with failing default; "
        "(4) byte-API import lengths bounded by the caller's sizes. NOT decided: equality of the accept set with the "
        "standards (numerical)." % len(us),
        ["status functions follow the repository's 0/errno convention (derived by fixed point from return statements)",
         "bn_cmp returns -1/0/1, bn_is_zero returns 0/1"],
        TRUSTED)


def selftest():
    u = fixtures.load("err.c")
    rep = driver.Report("fixture", "quick")
    S, _ = r_err.status_functions(u)
    if S != {"fx_status", "fx_status2"} | {f for f in S if f.startswith("fx_good") or f.startswith("fx_bad") or f.startswith("fx_guard") or f.startswith("fx_switch")}:
        raise driver.AnalysisBroken("fixture: status set %s" % sorted(S))
    if "fx_cmp" in S:
        raise driver.AnalysisBroken("fixture: predicate classified as status function")
    for fn in u.function_list:
        if fn.name.startswith("fx_bad") or fn.name.startswith("fx_good"):
            r_err.check(rep, fn, {"fx_status", "fx_status2"})
    fixtures.expect(rep, ["fx_bad_discard", "fx_bad_void", "fx_bad_stored_unread", "fx_bad_stored_one_path"],
                    ["fx_good_macro", "fx_good_if", "fx_good_stored", "fx_good_switch", "fx_good_ret"], "R-ERR")
    rep = driver.Report("fixture", "quick")
    for fn in u.function_list:
        if fn.name.startswith("fx_guard"):
            r_mpt.check_guard(rep, fn, "fx_cmp", r_mpt.call_atom("fx_cmp", [None, None]), (-1, 0, 1), (-1,))
        if fn.name.startswith("fx_switch"):
            r_mpt.check_switch_exhaustive(rep, fn, lambda c: True, {"A": 0, "B": 1}, u)
    fixtures.expect(rep, ["fx_guard_wrong_dir", "fx_guard_missing", "fx_guard_bypass", "fx_switch_nodefault", "fx_switch_missing"],
                    ["fx_guard_ok", "fx_guard_ok2", "fx_switch_ok"], "R-MPT")
