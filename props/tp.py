"""Shared units / helpers for the thread-pool properties (C05, C06, C10, C11, C16)."""
import os
from rules import driver, core
from rules.core import walk, key, const_val
from props import common

TP_C = "src/threadpool/threadpool.c"
MSG_C = "src/threadpool/threadpool_msg_sys.c"
TASK_C = "src/threadpool/threadpool_task.c"


def units(which=(TP_C, MSG_C, TASK_C)):
    return driver.load_units([common.src_unit(w) for w in which])


def probe(src_rel, exprs, label):
    """evaluate constant expressions in the scope of a .c file: returns dict name->int (None if not constant)"""
    txt = '#include "%s"\n' % os.path.join(driver.REPO, src_rel)
    for name, ex in exprs.items():
        if ex.startswith("IFDEF:"):
            m = ex[6:]
            txt += "#ifdef %s\nstatic const unsigned long long lcb_probe_%s = (unsigned long long)(%s);\n#endif\n" % (m, name, m)
        else:
            txt += "static const unsigned long long lcb_probe_%s = (unsigned long long)(%s);\n" % (name, ex)
    spec = driver.UnitSpec(label, "text", txt)
    u = driver.load_units([spec], no_bodies=True)[label]
    res = {}
    for name in exprs:
        g = u.globals.get("lcb_probe_" + name)
        v = core.global_value(u, g) if g else None
        res[name] = int(v) if isinstance(v, (int, str)) and str(v).lstrip("-").isdigit() else None
    return res


def need(u, name):
    fn = u.fn(name)
    if fn is None:
        raise driver.AnalysisBroken("anchor %s vanished from %s" % (name, u.label))
    return fn


def indirect_calls_via_param(fn, pidx):
    """positions of indirect calls whose callee is parameter #pidx"""
    res = []
    pid = fn.params[pidx]["id"]
    for pos, root, n, ps in fn.nodes():
        if n.get("k") == "call" and "callee" in n:
            c = core.strip_casts(n["callee"])
            if c.get("k") == "ref" and c["id"] == pid:
                res.append((pos, n))
    return res


def macro_of(n, parents=()):
    m = core.macros(n, parents)
    return m[0] if m else None
