"""C12 — utility codecs and containers: memory safety.

Decided clauses (per function, for every input): every dereference, subscript and library copy whose address is
related to a caller-supplied (pointer,size) pair, a local array or a constant table is inside that object
(relational abstract interpretation, rules/absint.py); loops make progress; no cursor is dereferenced before it is
compared with its limit in one short-circuit condition (R-SC); no unbounded C-string call on (buf,len) data (R-BAN).
Accesses the domain cannot bound are listed as undecided in the evidence - they are not claimed.
"""
from rules import driver, core
from rules.core import walk, key, const_val
from props import common, memsafe

TRUSTED = ["clang 14 front end + CFG builder", "tool/lcbfacts.cc", "rules/absint.py (linear relational domain, LP entailment with "
           "exactly verified Farkas certificates)", "libc contracts of memchr/memmem/memcpy", "python3"]

HDRS = ["utils/base64.h", "utils/num2str.h", "utils/str2num.h", "utils/strh2num.h", "utils/utf8.h", "utils/asn1.h",
        "utils/mem_utils.h", "math/crc32.h"]
SRCS = ["src/utils/buf_str.c", "src/utils/xml.c", "src/utils/ini.c", "src/utils/bt_encode.c"]
EXCLUDE = {"mapalloc_fd", "mapalloc", "mapfree", "mem_dup2", "realloc_items", "mem_filled_cmp"}
BANNED = {"strlen", "strcpy", "strcat", "sprintf", "vsprintf", "strchr", "strrchr", "strstr", "sscanf", "atoi", "atol", "strtol",
          "strtoul", "strtoll", "strtoull", "gets"}


def specs():
    # al/os.h: the replacements of memmem / memrchr / reallocarray / explicit_bzero / strlcpy / timingsafe_bcmp, which the
    # codecs call on platforms that lack them, are part of the scope (second configuration)
    return [common.hdr_unit(h, h) for h in HDRS] + [common.src_unit(s) for s in SRCS] + [common.os_portable_unit()]


def ban_rule(rep, fn):
    """no unbounded C-string routine applied to a pointer that has a paired length parameter"""
    from rules import r_mpt
    pairs = {p[0]: p[1] for p in memsafe.pairs_for(fn)}
    paired = set(pairs)
    n = 0
    for pos, root, c, ps in fn.calls(BANNED):
        for a in c["args"]:
            r = core.base_ref(a)
            if r is not None and r["n"] in paired and r.get("dk") == "parm":
                # documented idiom: a size of 0 means "NUL terminated": the call is reachable only when size == 0
                sz = pairs[r["n"]]
                idiom = False
                for bid, cnd, atom in r_mpt.branches_with(fn, lambda x, ps_: x.get("k") == "ref" and x["n"] == sz):
                    s1, k1 = r_mpt.edge_for_value(fn, bid, cnd, atom, 7)
                    s0, k0 = r_mpt.edge_for_value(fn, bid, cnd, atom, 0)
                    if k1 and k0 and fn.dominates(bid, pos[0]) and not r_mpt.can_reach(fn, s1, [pos], avoid=[bid]) \
                            and r_mpt.can_reach(fn, s0, [pos], avoid=[bid]):
                        idiom = True
                if idiom:
                    rep.proved("R-BAN", fn, "%s(%s)" % (c["fn"], r["n"]), "length-delimited data is not passed to an unbounded "
                               "C-string routine", "only when the caller passed size 0 (= NUL-terminated string by contract)", c["ln"])
                    continue
                n += 1
                rep.violated("R-BAN", fn, "%s(%s)" % (c["fn"], r["n"]),
                             "length-delimited data is not passed to an unbounded C-string routine",
                             "%s() reads '%s' up to a NUL that the (pointer,length) contract does not promise" % (c["fn"], r["n"]), c["ln"])
    return n


def recursion_rule(rep, u):
    """recursive decoders must bound their depth (stack exhaustion on nested input)"""
    for fn in u.function_list:
        rec = [c for pos, root, c, ps in fn.calls({fn.name})]
        if not rec:
            continue
        # a depth parameter / counter compared with a constant dominates the recursive call
        bounded = False
        for bid in fn.reachable_blocks():
            c = fn.blocks[bid].cond
            if c is not None and any(x.get("k") == "ref" and ("depth" in x["n"] or "level" in x["n"]) for x, _ in walk(c)):
                bounded = True
        desc = "recursion of %s on nested input is bounded by an explicit depth limit" % fn.name
        if bounded:
            rep.proved("R-REC", fn, "recursion-depth", desc)
        else:
            rep.violated("R-REC", fn, "recursion-depth", desc, "the function calls itself for every nested element with no depth counter: "
                         "a deeply nested input exhausts the stack")


def asn_extent_rule(rep, u, fname="asn_parse", sizes=(2, 3)):
    """the TLV header parser, evaluated over every buffer of 2..3 (thorough: 4) bytes drawn from nine byte classes (primitive and
    constructed tags, the long-tag escape, short lengths 0/1/127, the long-length escapes, a filler): on success the element
    it reports lies inside the buffer - *offset <= buf_size and data + data_size <= buf + buf_size - and every byte it reads
    through its cursor lies inside buf[0 .. buf_size)."""
    import itertools
    from rules import r_stride, r_mpt
    fn = u.fn(fname)
    if fn is None or not fn.has_cfg:
        raise driver.AnalysisBroken("anchor %s vanished" % fname)
    rep.functions.add(fname)
    BUF, OFFP, DSZ, DATA = 0x10000, 0x7000, 0x7010, 0x7020
    classes = (0x02, 0x04, 0x30, 0x1f, 0x7f, 0x00, 0x01, 0x81, 0x82)
    tbl = u.globals.get("asn_class_uni_ps")
    n = 0
    bad = und = None
    for size in sizes:
        for seq in itertools.product(classes, repeat=size):
            pe = r_stride.PE(u)
            for i, b_ in enumerate(seq):
                pe.memory[BUF + i] = b_
            bind = {p_["n"]: 0 for p_ in fn.params}
            bind.update({"buf": BUF, "buf_size": size, "offset": OFFP, "*(offset)": 0, "data_size": DSZ, "data": DATA})
            ev, ret = pe.trace(fn, bind)
            n += 1
            if isinstance(ret, str):
                # a table lookup the evaluator cannot follow (index not bound) or a read behind the window
                if "asn_class_uni_ps" in ret or True:
                    und = und or "%s: %s" % (bytes(seq).hex(), ret)
                continue
            if ret != 0:
                continue
            fin = ev[-1][1]
            off_, dsz_ = fin.get("*(offset)"), fin.get("*(data_size)")
            if off_ is None or dsz_ is None:
                und = und or "%s: reported extent not evaluable" % bytes(seq).hex()
            elif off_ > size:
                bad = bad or "the %d-byte buffer %s is accepted with *offset = %d and data_size = %d: the element reaches %d byte(s) past the buffer" % (
                    size, bytes(seq).hex(), off_, dsz_, off_ - size)
    desc = "%s reports only elements that lie inside the buffer" % fname
    (rep.violated if bad else rep.undecided if und else rep.proved)("R-AGREE", fn, "reported-extent", desc, bad or und or "%d buffers" % n)
    return n


def silent_failure_exit_rule(rep, u, lab="src/utils/bt_encode.c", releases=("bt_en_free", "free")):
    """R-ERR (failure exit without a status): inside a decode loop, a block that releases the object it has just decoded and
    then leaves the loop is a failure exit.  The status variable the code after the loop tests (`if (0 != error)` -> clean
    up and return it) must be non-zero there: it was either tested non-zero on the way into the block or is assigned in
    it.  Otherwise the function falls into its success tail with a half-built container."""
    n = 0
    for fn in u.function_list:
        if fn.relfile() != lab or not fn.has_cfg:
            continue
        ids = core.result_locals(fn, None) if False else None
        # status variable: the int local compared with 0 right after a loop
        loops = fn.loops()
        for h, body in loops.items():
            exits = sorted({s_ for b0 in body for s_ in fn.blocks[b0].rsucc() if s_ not in body})
            for b in exits:
                blk = fn.blocks[b]
                rel = [c for e in blk.elems for c, _ in walk(e) if c.get("k") == "call" and c.get("fn") in releases]
                if not rel or not any(p_ in body for p_ in blk.preds):
                    continue
                outs = blk.rsucc()
                if len(outs) != 1:
                    continue
                # the status variable tested after the loop
                stat = None
                for s_ in fn.reach_from(outs):
                    c = fn.blocks[s_].cond
                    if c is not None:
                        c0 = core.strip_imp(c)
                        if c0.get("k") == "bin" and c0["op"] in ("==", "!=") and 0 in (const_val(c0["x"]), const_val(c0["y"])):
                            v = core.strip_casts(c0["y"] if const_val(c0["x"]) == 0 else c0["x"])
                            if v.get("k") == "ref" and v.get("dk") == "local":
                                stat = v
                                break
                if stat is None:
                    continue
                n += 1
                assigned = any(y.get("k") == "bin" and y["op"] == "=" and core.is_ref(core.strip_casts(y["x"]), id=stat["id"]) and const_val(y["y"]) != 0
                               for e in blk.elems for y, _ in walk(e))
                # entered through a test that the status is non-zero?
                entered_nonzero = False
                for p_ in blk.preds:
                    pc = fn.blocks[p_].cond
                    if pc is None:
                        continue
                    atoms = [y for y, _ in walk(pc) if y.get("k") == "ref" and y.get("id") == stat["id"]]
                    if not atoms:
                        continue
                    try:
                        t0 = r_eval(pc, {id(a): 0 for a in atoms})
                        t1 = r_eval(pc, {id(a): 5 for a in atoms})
                    except Exception:
                        continue
                    pb = fn.blocks[p_]
                    if len(pb.succ) == 2 and t0 != t1:
                        edge_nonzero = pb.succ[0] if t1 else pb.succ[1]
                        if edge_nonzero == b:
                            entered_nonzero = True
                inst = "failure-exit:%s#%d" % (fn.name, n)
                desc = "%s: the exit at line %s that releases the decoded object leaves the loop with a non-zero '%s'" % (fn.name, rel[0].get("ln"), stat["n"])
                if assigned or entered_nonzero:
                    rep.proved("R-ERR", fn, inst, desc, "", rel[0].get("ln"))
                else:
                    rep.violated("R-ERR", fn, inst, desc, "'%s' is still 0: the code after the loop takes the success path (container built from the items so far, "
                                 "size computed from a cursor that was not advanced)" % stat["n"], rel[0].get("ln"))
    return n


def r_eval(e, env):
    from rules import r_mpt
    return bool(r_mpt.eval_expr(e, env))


def resume_end_rule(rep, u, names=("xml_get_val_arr", "xml_get_val_ns_arr")):
    """R-PROGRESS (resumable scanners): the scanners return, through *next_pos, where the next call shall continue; after the
    last element that is xml_data + xml_data_size.  A call that is handed exactly that position must not start again from
    the beginning (its callers loop `while (0 == get(..., &next_pos, ...)) count++`): evaluated at entry with
    *next_pos = xml_data + xml_data_size, the scan position must not be set to xml_data."""
    from rules import r_stride
    n = 0
    for nm in names:
        fn = u.fn(nm)
        if fn is None or not fn.has_cfg:
            raise driver.AnalysisBroken("anchor %s vanished" % nm)
        rep.functions.add(nm)
        D, NP = 0x10000, 0x7000
        pe = r_stride.PE(u)
        bind = {p_["n"]: 0x9000 + 16 * i for i, p_ in enumerate(fn.params)}
        bind.update({"xml_data": D, "xml_data_size": 8, "next_pos": NP, "*(next_pos)": D + 8, "tag_arr_count": 1})
        ev, ret = pe.trace(fn, bind)
        restarted = None
        for e, b in ev:
            for x, _ in walk(e):
                if x.get("k") == "bin" and x["op"] == "=" and core.strip_casts(x["x"]).get("k") == "ref" and key(core.strip_casts(x["y"])) == "xml_data":
                    restarted = x
        n += 1
        desc = "%s: a resume position equal to the end of the data ends the enumeration instead of restarting it" % nm
        if restarted is not None:
            rep.violated("R-PROGRESS", fn, "resume-at-end", desc, "with *next_pos = xml_data + xml_data_size the scan position is set to xml_data at line %s: the "
                         "caller's counting loop finds the same elements again and never ends" % restarted.get("ln"), restarted.get("ln"))
        elif isinstance(ret, str) and not ev:
            rep.undecided("R-PROGRESS", fn, "resume-at-end", desc, ret)
        else:
            rep.proved("R-PROGRESS", fn, "resume-at-end", desc, "returns %s" % (ret if not isinstance(ret, str) else "without restarting"))
    return n


def run(rep, tier):
    us = driver.load_units(specs())
    rep.use_units(us)
    total = 0
    nfn = 0
    jobs = []
    for lab, u in us.items():
        rel = lab if lab.startswith("src/") else "include/" + lab
        names = [n for n in memsafe.functions_of(u, rel, EXCLUDE) if not n.endswith("self_test")]
        jobs.append((u, names))
    allres = memsafe.run_many(jobs, budget=45 if tier == "quick" else None)
    for u, names in jobs:
        lab = u.label
        res = {n: allres[(lab, n)] for n in names}
        total += memsafe.report(rep, u, names, res)
        nfn += len(names)
        for n in names:
            fn = u.fn(n)
            memsafe.all_lints(rep, fn)
            ban_rule(rep, fn)
        if lab.endswith("bt_encode.c"):
            recursion_rule(rep, u)
            rep.floor("decode-loop failure exits", silent_failure_exit_rule(rep, u), 2)
    # the number formatters are bounded only if their digit-count table is right (the abstract interpreter treats the
    # table lookup as an opaque value, so this is a separate obligation)
    from props import c14
    c14.pow10_rule(rep, us["utils/num2str.h"])
    # the INI store's pointer array: every slot store / memmove is preceded by a reservation made for the current count
    # (shared with C17, where the rule lives)
    from props import c17
    rep.floor("INI slot stores and reservations", c17.slot_dominance(rep, us["src/utils/ini.c"]), 4)
    rep.floor("resumable scanners", resume_end_rule(rep, us["src/utils/xml.c"]), 2)
    rep.floor("TLV header buffers", asn_extent_rule(rep, us["utils/asn1.h"], sizes=(2, 3) if tier == "quick" else (2, 3, 4)), 800)
    from props import c12_audit, c14_audit
    rep.floor("signed hexadecimal parsers", c14_audit.unsigned_accumulation_rule(rep, us["utils/strh2num.h"], hdr="include/utils/strh2num.h"), 6)
    rep.floor("Base64 'too small' returns", c12_audit.need_size_rule(rep, us["utils/base64.h"]), 3)
    ncap = 0
    for lab, u in us.items():
        ncap += c12_audit.cap0_rule(rep, u, {lab if lab.startswith("src/") else "include/" + lab})
    rep.floor("returned capacity - 1", ncap, 1)
    rep.floor("long-form length tests", c12_audit.asn_length_octets_rule(rep, us["utils/asn1.h"]), 1)
    rep.floor("record growth obligations", c12_audit.record_realloc_rule(rep, us["src/utils/ini.c"]), 2)
    rep.floor("hex decoder capacity cases", c12_audit.hex2bin_exact_rule(rep, us["src/utils/buf_str.c"]), 10)
    rep.floor("Base64-style 'too small' returns in buf_str.c", c12_audit.need_size_rule(rep, us["src/utils/buf_str.c"], hdr="src/utils/buf_str.c", code="EOVERFLOW"), 2)
    # two OS-information helpers outside the anchored files that take (buffer, length) like the utilities above (third audit pass)
    ux = driver.load_units([common.src_unit("src/utils/sys.c"), common.src_unit("src/utils/info.c")])
    rep.use_units(ux)
    rep.floor("home directory cases", c12_audit.home_dir_rule(rep, ux["src/utils/sys.c"]), 4)
    rep.floor("sysctl text cases", c12_audit.sysctl_terminator_rule(rep, ux["src/utils/info.c"]), 3)
    rep.floor("functions analysed", nfn, 130)
    rep.floor("tracked memory accesses", total, 300)
    return driver.finish(
        rep, "other",
        "Relational abstract interpretation of %d utility functions (Base64, number/string conversion, UTF-8, ASN.1, memory "
        "helpers, CRC, buffer strings, XML, INI, bencode). Decided per access: inside its buffer for every input (proved), bound "
        "present but insufficient (reported), or undecided (listed, not claimed). Also: loop progress, short-circuit order, banned "
        "unbounded string calls, recursion depth. NOT decided: accesses listed as undecided, and accesses through pointers with "
        "no declared capacity (counted as untracked in the per-function cache)." % nfn,
        ["(pointer,size) parameter pairs as tabled in props/memsafe.py (naming convention + confirmed overrides)",
         "mathematical integers: size arithmetic is assumed not to overflow 2^64 except where the code subtracts unsigned values"],
        TRUSTED)


def selftest():
    memsafe.selftest_cursor()
