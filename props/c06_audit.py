"""C06 rules from the audit round (replays/C06-hunt): structural necessary conditions of "fires while and only while
registered and enabled", "one-shot fires at most once and is then gone", "malformed registrations are refused".

  R-FRESH   the timer's mode flags are stored on every add/enable, not only when the timerfd is created
  R-READOK  an expiration is delivered only by the thread whose read() of the timerfd succeeded
  R-EPFD    a registration is removed from the epoll set of the thread it was added to (not of the thread that runs the loop)
  R-CLOCK   an absolute time is never programmed on a timerfd that was created for the monotonic clock
  R-KIND    delete / disable of a read or write event apply only to the kind that is registered
  R-REFUSE  zero timer value, process ident beyond pid_t, flag bits without a meaning are refused; the low-water mark is clamped
"""
from rules import driver, core, r_mpt
from rules.core import key, const_val, walk
from props import tp


def _walk(c):
    """walk that also descends into the recorded operands of short-circuit / conditional placeholders"""
    for y, ps in walk(c):
        yield y, ps
        if y.get("k") == "lazy" and y.get("lz") is not None:
            for r in _walk(y["lz"]):
                yield r


def _uses_macro(fn, name):
    """positions of root statements that come from an expansion of macro `name`"""
    out = []
    for pos, root, x, ps in fn.nodes():
        if name in core.macros(x, ps) and pos not in out:
            out.append(pos)
    return out


def timer_flags_fresh_rule(rep, fp):
    sets = _uses_macro(fp, "TPDATA_EV_FL_SET")
    arms = [(pos, c) for pos, root, c, ps in fp.calls({"timerfd_settime"})]
    if not sets or not arms:
        raise driver.AnalysisBroken("tpt_ev_post: TPDATA_EV_FL_SET / timerfd_settime sites not found (%d, %d)" % (len(sets), len(arms)))
    # the arming call: the one whose new value is built from ev->data (not the zeroed disable value) - the last by line
    apos, ac = sorted(arms, key=lambda t: t[1].get("ln") or 0)[-1]
    ok = any(fp.pos_dominates(s_, apos) for s_ in sets)
    desc = "tpt_ev_post: every add/enable of a timer stores the flags the loop will act on (one-shot / dispatch / periodic)"
    (rep.proved if ok else rep.violated)("R-FRESH", fp, "timer-flags-stored", desc, "a TPDATA_EV_FL_SET dominates the arming timerfd_settime" if ok else
                                         "TPDATA_EV_FL_SET is reached only when the timerfd is created: add(ONESHOT) then enable(periodic, 50 ms) fires once and "
                                         "closes the timer; add(DISPATCH) then enable(periodic) leaves an unread timerfd spinning in epoll_wait", ac.get("ln"))
    return 1


def timer_read_rule(rep, fl):
    n = 0
    for pos, root, c, ps in fl.calls({"read"}):
        n += 1
        tested = fl.is_cond_root(pos) or any(p.get("k") == "bin" and p["op"] in ("==", "!=", "<", ">", "<=", ">=") for p in ps)
        if not tested:
            ids = core.result_locals(fl, {"read"})
            tested = any(any(y.get("k") == "ref" and y.get("id") in ids for y, _ in walk(fl.blocks[b].cond)) for b in fl.reachable_blocks()
                         if fl.blocks[b].cond is not None and fl.dominates(pos[0], b))
        desc = "tpt_loop: the timer callback runs only on the thread whose read() of the expiration count succeeded"
        (rep.proved if tested else rep.violated)("R-READOK", fl, "timer-read-tested", desc, "" if tested else
                                                 "the result of read(tfd) is ignored: a timer on the shared virtual thread is level-triggered in every worker's "
                                                 "epoll, all workers that fetch the event call the callback (32-55 callbacks per second for a 50 ms timer on 8 workers)",
                                                 c.get("ln"))
    return n


def epoll_owner_rule(rep, u):
    n = 0
    for fn in u.function_list:
        if fn.relfile() != tp.TP_C or not fn.has_cfg:
            continue
        for pos, root, c, ps in fn.calls({"epoll_ctl", "epoll_ctl_ex"}):
            if len(c["args"]) < 3 or "tp_udata->ident" not in key(c["args"][2]):
                continue
            n += 1
            rep.functions.add(fn.name)
            a0 = key(c["args"][0])
            ok = "tp_udata->tpt->io_fd" in a0
            if not ok and "->io_fd" in a0:
                # through a local that holds the record's (previous) thread: `old = tp_udata->tpt; ... old->io_fd`
                b0 = core.base_ref(c["args"][0])
                if b0 is not None and b0.get("dk") == "local":
                    defs = [x["y"] for p2, r2, x, _ in fn.nodes() if x.get("k") == "bin" and x["op"] == "=" and core.is_ref(core.strip_casts(x["x"])) and
                            core.strip_casts(x["x"]).get("id") == b0["id"]]
                    ok = bool(defs) and all(key(core.strip_casts(d_)) == "tp_udata->tpt" for d_ in defs)
            desc = "%s: the registration of tp_udata->ident is changed in the epoll set of the thread it belongs to" % fn.name
            (rep.proved if ok else rep.violated)("R-EPFD", fn, "epoll-set-of-owner#%d" % n, desc, a0[:60] if ok else
                                                 "%s is the descriptor of the thread running the loop: for an event of the shared virtual thread the one-shot "
                                                 "EPOLL_CTL_DEL fails with ENOENT and the registration stays" % a0[:50], c.get("ln"))
    return n


def clock_rule(rep, fp, vals):
    creates = [pos for pos, root, c, ps in fp.calls({"timerfd_create"})]
    if not creates:
        raise driver.AnalysisBroken("tpt_ev_post: timerfd_create not found")
    # a close() of the existing timer, under a condition that looks at the ABSTIME fflag, from which the create is still reachable
    ok = None
    for pos, root, c, ps in fp.calls({"close"}):
        if creates[0][0] not in fp.reach_from([pos[0]]):
            continue
        for bid in fp.reachable_blocks():
            cnd = fp.blocks[bid].cond
            if cnd is None or not fp.dominates(bid, pos[0]) or bid == pos[0]:
                continue
            if any(const_val(y) == vals["TP_FF_T_ABSTIME"] for y, _ in _walk(cnd)) and any(y.get("k") == "mem" and y["f"] == "tpdata" for y, _ in _walk(cnd)):
                ok = c.get("ln")
    desc = "tpt_ev_post: a timer whose clock kind (absolute / relative) changes is re-created, not re-programmed"
    (rep.proved if ok else rep.violated)("R-CLOCK", fp, "clock-kind-change", desc, ("close + re-create at line %s" % ok) if ok else
                                         "the clock is chosen at timerfd_create only, TFD_TIMER_ABSTIME from the current fflags: enable(ABSTIME, now + 200 ms) on a "
                                         "timer created relative programs an epoch value on CLOCK_MONOTONIC and never fires")
    return 1


def rw_kind_rule(rep, fp, vals):
    # the read/write branch: the EPOLL_CTL_DEL call outside the timer/proc cases
    dels = [(pos, c) for pos, root, c, ps in fp.calls({"epoll_ctl"}) if len(c["args"]) > 2 and "tp_udata->ident" in key(c["args"][2])]
    n = 0
    for pos, c in dels:
        n += 1
        ok = False
        for bid in fp.reachable_blocks():
            cnd = fp.blocks[bid].cond
            if cnd is None or pos[0] not in fp.reach_from([bid]) or bid == pos[0]:
                continue                         # (the test sits behind `DEL == op || DISABLE == op`: it need not dominate)
            has_ev = any(y.get("k") == "mem" and y["f"] == "event" for y, _ in _walk(cnd))
            has_tp = any(y.get("k") == "mem" and y["f"] == "tpdata" for y, _ in _walk(cnd))
            if has_ev and has_tp and any(pos[0] not in fp.reach_from([s_]) for s_ in fp.blocks[bid].rsucc()):
                ok = True
        desc = "tpt_ev_post: delete / disable of a read or write event is refused unless that kind is what is registered"
        (rep.proved if ok else rep.violated)("R-KIND", fp, "rw-kind-checked", desc, "" if ok else
                                             "no test of ev->event against the registered kind in tpdata: del(WRITE) removes the READ registration and returns 0, "
                                             "disable on a never-added identifier installs it", c.get("ln"))
    return n


def tfd_kind_rule(rep, fp):
    """delete / disable of a timer or a process watch: 'nothing registered' (ENOENT) is decided from the descriptor packed in
    tpdata AND from the registered kind - the descriptor field alone also holds the pidfd of a process watch / the timerfd
    of a timer, so del(PROC) on a timer record would close the timer."""
    n = 0
    preds = {}
    for b in fp.reachable_blocks():
        for s_ in fp.blocks[b].rsucc():
            preds.setdefault(s_, []).append(b)
    for rpos, rnode in fp.returns():
        if "ENOENT" not in core.macros(rnode.get("e") or {}):
            continue
        pcs = [b for b in preds.get(rpos[0], []) if fp.blocks[b].cond is not None]
        tfd_tests = [b for b in pcs if any(core.is_ref(y) and y.get("dk") == "local" and const_val(y) is None for y, _ in _walk(fp.blocks[b].cond))
                     and any(const_val(y) == -1 for y, _ in _walk(fp.blocks[b].cond))]
        if not tfd_tests:
            continue
        n += 1
        kind = any(any(y.get("k") == "mem" and y["f"] == "tpdata" for y, _ in _walk(fp.blocks[b].cond)) for b in pcs)
        desc = "tpt_ev_post: the ENOENT exit at line %s also tests the registered kind" % rnode.get("ln")
        (rep.proved if kind else rep.violated)("R-KIND", fp, "tfd-kind-checked@%d" % n, desc, "" if kind else
                                               "only `-1 == tfd` is tested: del(TP_EV_PROC) on a periodic timer returns 0 and closes the timer, del(TP_EV_TIMER) on a process "
                                               "watch closes the pidfd and the child's exit is never reported", rnode.get("ln"))
    return n


def tpdata_snapshot_rule(rep, fl):
    """tpt_loop: the decision to run the callback and what it is told come from ONE read of tpdata that is refused when it
    is 0 (a record deleted / a one-shot completed by another worker of the shared virtual thread reads as 'persistent
    TP_EV_READ, enabled' otherwise)."""
    # reads of tp_udata->tpdata in the loop, outside stores
    reads = []
    for pos, root, x, ps in fl.nodes():
        if x.get("k") == "mem" and x["f"] == "tpdata":
            is_store = any(q.get("k") == "bin" and (q["op"] == "=" or q["op"] in ("|=", "&=")) and core.strip_casts(q["x"]) is x for q in ps)
            if not is_store:
                reads.append((pos, x))
    cbs = [pos for pos, root, c, ps in fl.calls() if c.get("fn") is None and "cb_func" in key(c)]
    if not cbs:
        raise driver.AnalysisBroken("tpt_loop: callback call not found")
    desc = "tpt_loop: one look at tpdata decides and describes the callback; a zero value is skipped"
    # the snapshot: a local assigned from the field
    snaps = [(pos, x) for pos, root, x, ps in fl.nodes() if x.get("k") == "bin" and x["op"] == "=" and core.is_ref(core.strip_casts(x["x"])) and
             core.strip_casts(x["x"]).get("dk") == "local" and any(y.get("k") == "mem" and y["f"] == "tpdata" for y, _ in _walk(x["y"]))]
    if not snaps:
        rep.violated("R-SNAP", fl, "tpdata-read-once", desc, "tp_udata->tpdata is read %d times between the event fetch and the callback: another worker's completion of a one-shot "
                     "timer on the virtual thread sets it to 0 in between, and 0 decodes as an enabled persistent TP_EV_READ - the callback runs again with TP_EV_READ" % len(reads))
        return 1
    # the snapshot is the assignment that dominates every other read
    snaps = [t for t in snaps if all(fl.pos_dominates(t[0], p_) or p_ == t[0] or any(y is x for y, _ in _walk(t[1]["y"])) for p_, x in reads)] or snaps[:1]
    spos, sx = snaps[0]
    sid = core.strip_casts(sx["x"])["id"]
    later = [p_ for p_, x in reads if fl.pos_dominates(spos, p_) and p_ != spos and not any(y is x for y, _ in _walk(sx["y"]))]
    zero = False
    from rules import r_mpt
    for bid in fl.reachable_blocks():
        c = fl.blocks[bid].cond
        if c is None or not fl.dominates(spos[0], bid) or not all(fl.dominates(bid, cb_[0]) for cb_ in cbs):
            continue
        atoms = [y for y, _ in _walk(c) if core.is_ref(y) and y.get("id") == sid]
        if not atoms:
            continue
        # evaluated, not matched: with the snapshot = 0 the branch taken must not lead to the callback
        try:
            v = r_mpt.eval_expr(c, {id(a): 0 for a in atoms})
        except r_mpt.Unknown:
            continue
        s_ = fl.blocks[bid].succ[0] if v else fl.blocks[bid].succ[1]
        if s_ is None or not any(cb_[0] in fl.reach_from([s_], avoid=[bid]) for cb_ in cbs):
            zero = True
    if later:
        rep.violated("R-SNAP", fl, "tpdata-read-once", desc, "the field is read again after the snapshot (line %s)" % fl.blocks[later[0][0]].elems[later[0][1]].get("ln"))
    elif not zero:
        rep.violated("R-SNAP", fl, "tpdata-read-once", desc, "the snapshot is not tested against 0")
    else:
        rep.proved("R-SNAP", fl, "tpdata-read-once", desc, "snapshot at line %s, tested against 0" % sx.get("ln"))
    return 1


def refuse_rule(rep, u, vals, opt):
    fv = tp.need(u, "tpt_ev_validate")
    rep.functions.add(fv.name)
    einval = [pos for pos, r in fv.returns() if const_val(r.get("e")) == 22]

    def leaves_to_error(bid):
        """an EINVAL return is control-dependent on this test"""
        return any(fv.dominates(bid, e[0]) and e[0] != bid for e in einval)
    zero = rng = False
    for bid in fv.reachable_blocks():
        cnd = fv.blocks[bid].cond
        if cnd is None:
            continue
        for y, _ in _walk(cnd):
            if y.get("k") == "bin" and y["op"] in ("==", "!="):
                a, b = core.strip_casts(y["x"]), core.strip_casts(y["y"])
                for m, c_ in ((a, b), (b, a)):
                    if m.get("k") == "mem" and m["f"] == "data" and const_val(c_) == 0 and leaves_to_error(bid):
                        zero = True
            if y.get("k") == "bin" and y["op"] in ("<", ">", "<=", ">="):
                if any(z.get("k") == "mem" and z["f"] == "ident" for z, _ in _walk(y)) and any((const_val(z) or 0) in (0x7fffffff, 0x80000000, 0xffffffff) for z, _ in _walk(y)) \
                        and leaves_to_error(bid):
                    rng = True
    (rep.proved if zero else rep.violated)("R-REFUSE", fv, "timer-zero-refused", "tpt_ev_validate: a timer value of 0 is refused on add/enable", "" if zero else
                                           "accepted: it_value {0,0} disarms the timerfd, the call returns 0 and the event never fires")
    (rep.proved if rng else rep.violated)("R-REFUSE", fv, "proc-ident-range", "tpt_ev_validate: a process identifier that does not fit pid_t is refused", "" if rng else
                                          "accepted: 2^32 + pid is cut to pid_t and another process is watched")
    # a seconds value that is no time_t: the later timerfd_settime failure destroys the live timer, so it is refused here
    secs = False
    for bid in fv.reachable_blocks():
        cnd = fv.blocks[bid].cond
        if cnd is None or not leaves_to_error(bid):
            continue
        for y, _ in _walk(cnd):
            if y.get("k") == "bin" and y["op"] in ("<", ">", "<=", ">=") and any(z.get("k") == "mem" and z["f"] == "data" for z, _ in _walk(y)) and \
                    any((const_val(z) or 0) in (0x7fffffffffffffff, 0x8000000000000000) for z, _ in _walk(y)):
                secs = True
    (rep.proved if secs else rep.violated)("R-REFUSE", fv, "timer-seconds-range", "tpt_ev_validate: a timer value in seconds that does not fit time_t is refused", "" if secs else
                                           "accepted: enable(TP_FF_T_SEC, 2^63) reaches timerfd_settime with a negative tv_sec, its EINVAL path closes the running timer")
    want = vals["TP_F_ONESHOT"] | vals["TP_F_DISPATCH"] | (opt.get("TP_F_EDGE") or 0) | (opt.get("TP_F_EXCLUSIVE") or 0)
    ok = vals["TP_F_S_MASK"] == want
    (rep.proved if ok else rep.violated)("R-REFUSE", fv, "flag-mask-exact", "the settable-flag mask contains exactly the flags that exist", "TP_F_S_MASK = 0x%x" % want if ok else
                                         "TP_F_S_MASK = 0x%x but the defined flags are 0x%x: bits without a meaning are accepted and silently dropped" % (vals["TP_F_S_MASK"], want))
    # the low-water mark handed to setsockopt is an int for the kernel
    fp = tp.need(u, "tpt_ev_post")
    n = 4
    for pos, root, x, ps in fp.nodes():
        if x.get("k") == "bin" and x["op"] == "=" and core.is_ref(core.strip_casts(x["x"]), name="lowat"):
            n += 1
            clamp = any((const_val(y) or 0) == 0x7fffffff for y, _ in _walk(x["y"]))
            (rep.proved if clamp else rep.violated)("R-REFUSE", fp, "lowat-clamped", "tpt_ev_post: the 64-bit low-water mark is clamped before it is narrowed",
                                                    "" if clamp else "2^32 + 1 becomes SO_RCVLOWAT = 1", x.get("ln"))
    return n


def close_after_del_rule(rep, u):
    """close() removes a descriptor from an epoll set only when the last reference to the open file description goes away.
    A timerfd / pidfd created by the pool can be inherited by a child process (fork, posix_spawn): then the registration
    survives close() and keeps reporting - with tpdata already 0 the loop decodes it as a persistent READ and spins.  Every
    close of such a descriptor is preceded by its EPOLL_CTL_DEL."""
    n = 0
    for fn in u.function_list:
        if fn.relfile() != tp.TP_C or not fn.has_cfg or fn.name not in ("tpt_ev_post", "tpt_loop"):
            continue
        for pos, root, c, ps in fn.calls({"close"}):
            a = key(core.strip_casts(c["args"][0]))
            if "tfd" not in a.lower() and "tpdata" not in a:
                continue
            n += 1
            rep.functions.add(fn.name)
            dels = [p2 for p2, r2, c2, _ in fn.calls({"epoll_ctl"}) if len(c2["args"]) > 2 and const_val(c2["args"][1]) == 2 and
                    key(core.strip_casts(c2["args"][2])) == a and fn.pos_dominates(p2, pos) and pos[0] in fn.reach_from([p2[0]])]
            # the DEL must not be separated from the close by an exit: same block or dominating with no other successor
            desc = "%s: the pool-created descriptor %s is removed from the epoll set before it is closed" % (fn.name, a)
            (rep.proved if dels else rep.violated)("R-CLOSEDEL", fn, "del-before-close#%d" % n, desc, "" if dels else
                                                   "closed without EPOLL_CTL_DEL: with the descriptor inherited by a spawned child, a deleted 20 ms timer keeps calling "
                                                   "back (about 680000 times in 300 ms) until the child exits", c.get("ln"))
    return n


def add_target_rule(rep, u):
    """tpt_ev_add*() store the thread into the record before validating: with a NULL thread a refused call leaves a live
    registration pointing nowhere (NULL dereference in the loop when it fires).  The store is behind a NULL test."""
    n = 0
    for fn in u.function_list:
        if fn.relfile() != tp.TP_C or not fn.has_cfg or not fn.name.startswith("tpt_ev_add"):
            continue
        for pos, root, x, ps in fn.nodes():
            if not (x.get("k") == "bin" and x["op"] == "=" and core.strip_casts(x["x"]).get("k") == "mem" and core.strip_casts(x["x"])["f"] == "tpt"):
                continue
            src = core.strip_casts(x["y"])
            if not (src.get("k") == "ref" and src.get("dk") == "parm"):
                continue
            n += 1
            rep.functions.add(fn.name)
            ok = False
            for bid in fn.reachable_blocks():
                cnd = fn.blocks[bid].cond
                if cnd is None or not fn.dominates(bid, pos[0]) or bid == pos[0]:
                    continue
                if any(core.is_ref(y, name=src["n"]) for y, _ in _walk(cnd)) and any(pos[0] not in fn.reach_from([s_]) for s_ in fn.blocks[bid].rsucc()):
                    ok = True
            desc = "%s: the record's thread is stored only after the thread argument was tested" % fn.name
            (rep.proved if ok else rep.violated)("R-OUTDEF", fn, "thread-stored-after-test", desc, "" if ok else
                                                 "stored before any test: add(NULL thread) returns EINVAL but the live registration now has tpt = NULL - del fails and "
                                                 "the next event dereferences it", x.get("ln"))
    return n


def refused_add_rule(rep, u):
    """an add that is refused by the validator leaves the record on the thread it was on: the store of the new thread is
    either behind the successful validation, or the refusing exit puts the previous value back.  A function that stores the
    thread and then hands the validation to a wrapper cannot do either."""
    from rules import r_mpt
    # functions that (transitively) call the validator
    validates = {f.name for f in u.function_list if f.has_cfg and any(c.get("fn") == "tpt_ev_validate" for _p, _r, c, _ps in f.calls())}
    changed = True
    while changed:
        changed = False
        for f in u.function_list:
            if f.has_cfg and f.relfile() == tp.TP_C and f.name not in validates and any(c.get("fn") in validates for _p, _r, c, _ps in f.calls()):
                validates.add(f.name)
                changed = True
    n = 0
    for fn in u.function_list:
        if fn.relfile() != tp.TP_C or not fn.has_cfg or not fn.name.startswith("tpt_ev_add"):
            continue
        stores = []
        restores = []
        for pos, root, x, ps in fn.nodes():
            if x.get("k") == "bin" and x["op"] == "=" and core.strip_casts(x["x"]).get("k") == "mem" and core.strip_casts(x["x"])["f"] == "tpt":
                src = core.strip_casts(x["y"])
                if src.get("k") == "ref" and src.get("dk") == "parm":
                    stores.append(pos)
                elif src.get("k") == "ref" and src.get("dk") == "local":
                    restores.append(pos)
        for S in stores:
            n += 1
            rep.functions.add(fn.name)
            desc = "%s: a refused add leaves the record's thread as it was" % fn.name
            res_ids = core.result_locals(fn, {"tpt_ev_validate"})
            direct = [p_ for p_, _r, c, _ps in fn.calls({"tpt_ev_validate"})]
            if direct and all(fn.pos_dominates(d_, S) for d_ in direct):
                # stored after the validation: must be behind its success edge
                rep.proved("R-OUTDEF", fn, "refused-add-keeps-thread", desc, "the thread is stored after the validation")
                continue
            if not direct:
                later = sorted({c.get("fn") for p_, _r, c, _ps in fn.calls() if c.get("fn") in validates and (p_[0] in fn.reach_from([S[0]]) or (p_[0] == S[0] and p_[1] > S[1]))})
                if later:
                    rep.violated("R-OUTDEF", fn, "refused-add-keeps-thread", desc, "the new thread is stored, then %s validates and may refuse: add(B, flags 0x8) on a record that lives "
                                 "on thread A returns EINVAL and leaves tpt = B; the delete goes to B's epoll (ENOENT) and A keeps calling back" % later[0])
                else:
                    rep.proved("R-OUTDEF", fn, "refused-add-keeps-thread", desc, "no validation after the store")
                continue
            # direct validation after the store: the refusing edge restores before it returns
            ok = True
            found = False
            for bid in fn.reachable_blocks():
                c = fn.blocks[bid].cond
                if c is None:
                    continue
                atom = None
                for y, _ in _walk(c):
                    if (y.get("k") == "ref" and y.get("id") in res_ids) or (y.get("k") == "call" and y.get("fn") == "tpt_ev_validate"):
                        atom = y
                if atom is None:
                    continue
                found = True
                s_, known = r_mpt.edge_for_value(fn, bid, c, atom, 22)
                if not known or s_ is None:
                    ok = False
                    continue
                cut = {r_[0] for r_ in restores}
                if s_ in cut:
                    continue
                reach = fn.reach_from([s_], avoid=cut) | {s_}
                if any(p_[0] in reach for p_, _e in fn.returns()):
                    ok = False
            if not found:
                ok = False
            (rep.proved if ok else rep.violated)("R-OUTDEF", fn, "refused-add-keeps-thread", desc, "the refusing exit restores the previous thread" if ok else
                                                 "a refusing exit of the validation returns without putting the previous thread back")
    return n


def live_record_rule(rep, u):
    """a record that is live on one thread (tpdata != 0) is not moved to another thread by an add: the registration would stay
    in the first thread's epoll set, both threads call back, and delete only reaches the second"""
    n = 0
    for fn in u.function_list:
        if fn.relfile() != tp.TP_C or not fn.has_cfg or not fn.name.startswith("tpt_ev_add"):
            continue
        for pos, root, x, ps in fn.nodes():
            if not (x.get("k") == "bin" and x["op"] == "=" and core.strip_casts(x["x"]).get("k") == "mem" and core.strip_casts(x["x"])["f"] == "tpt"):
                continue
            src = core.strip_casts(x["y"])
            if not (src.get("k") == "ref" and src.get("dk") == "parm"):
                continue
            n += 1
            rep.functions.add(fn.name)
            ok = False
            for bid in fn.reachable_blocks():
                cnd = fn.blocks[bid].cond
                # (part of a short-circuit chain: the test need not dominate, it must lie before the store and have a leaving edge)
                if cnd is None or bid == pos[0] or pos[0] not in fn.reach_from([bid]):
                    continue
                if any(y.get("k") == "mem" and y["f"] == "tpdata" for y, _ in _walk(cnd)) and any(pos[0] not in fn.reach_from([s_]) for s_ in fn.blocks[bid].rsucc()):
                    ok = True
            desc = "%s: the thread of a record that is live (tpdata != 0) on another thread is not overwritten" % fn.name
            (rep.proved if ok else rep.violated)("R-OUTDEF", fn, "live-record-stays", desc, "" if ok else
                                                 "add(t0, READ) then add(t1, READ) on the same record succeeds: it is in both epoll sets, both threads call back, del() removes "
                                                 "only t1's entry and t0 spins on the deleted record", x.get("ln"))
    return n


def live_record_moved_rule(rep, u):
    """the guard of live-record-stays may refuse only the pool-owned kinds (timer, process watch): a read/write record that is
    live on another thread is then MOVED - removed from the old thread's epoll set before it is installed on the new one
    (the caller may have closed the descriptor, which is why a refusal would be wrong and the removal's error is ignored)"""
    fn = tp.need(u, "tpt_ev_add")
    rep.functions.add(fn.name)
    stores = [pos for pos, root, x, ps in fn.nodes() if x.get("k") == "bin" and x["op"] == "=" and core.strip_casts(x["x"]).get("k") == "mem" and
              core.strip_casts(x["x"])["f"] == "tpt" and core.strip_casts(x["y"]).get("dk") == "parm"]
    if not stores:
        raise driver.AnalysisBroken("tpt_ev_add: store of the thread not found")
    kind_limited = False
    for bid in fn.reachable_blocks():
        cnd = fn.blocks[bid].cond
        if cnd is None or stores[0][0] not in fn.reach_from([bid]):
            continue
        if any("TPDATA_EVENT_GET" in core.macros(y) for y, _ in _walk(cnd)) and any(stores[0][0] not in fn.reach_from([s_]) for s_ in fn.blocks[bid].rsucc()):
            kind_limited = True
    moved = False
    for pos, root, c, ps in fn.calls({"epoll_ctl", "epoll_ctl_ex"}):
        b0 = core.base_ref(c["args"][0])
        if b0 is not None and b0.get("dk") == "local" and len(c["args"]) > 2 and "ident" in key(c["args"][2]):
            defs = [x["y"] for p2, r2, x, _ in fn.nodes() if x.get("k") == "bin" and x["op"] == "=" and core.is_ref(core.strip_casts(x["x"])) and core.strip_casts(x["x"]).get("id") == b0["id"]]
            if defs and all(key(core.strip_casts(d_)) == "tp_udata->tpt" for d_ in defs):
                moved = True
    # the previous thread pointer may dangle (a record that outlived its pool): it is followed only after it was found among
    # the threads of the pool the record is being added to
    guarded = True
    for pos, root, c, ps in fn.calls({"epoll_ctl", "epoll_ctl_ex"}):
        b0 = core.base_ref(c["args"][0])
        if b0 is None or b0.get("dk") != "local":
            continue
        g = False
        for bid in fn.reachable_blocks():
            cnd = fn.blocks[bid].cond
            if cnd is None or pos[0] not in fn.reach_from([bid]) or bid == pos[0]:
                continue
            if b0["id"] in core.ref_ids(cnd) and any(y.get("k") == "mem" and y["f"] in ("threads", "pvt") for y, _ in _walk(cnd)):
                g = True
        guarded = guarded and g
    (rep.proved if guarded else rep.violated)("R-OUTDEF", fn, "previous-thread-known-before-use", "tpt_ev_add: the record's previous thread is dereferenced only when it is one of the pool's threads",
                                              "" if guarded else "a record that outlived its pool (tp_destroy does not clear user records) keeps tpdata != 0 and a dangling thread pointer: adding it to a "
                                              "thread of a new pool reads the freed pool (heap-use-after-free) and runs EPOLL_CTL_DEL on whatever number lies there")
    ok = moved
    desc = "tpt_ev_add: a read/write record live on another thread is removed from that thread's epoll set, then installed (not refused: the caller may have closed the descriptor)"
    (rep.proved if ok else rep.violated)("R-OUTDEF", fn, "live-rw-record-moved", desc, "EPOLL_CTL_DEL on the previous thread's set" if ok else
                                         ("the guard lets read/write records through and nothing removes them from the previous thread's epoll set: both threads call back" if kind_limited else
                                          "every live record is refused with EBUSY: a record whose descriptor was closed (the kernel dropped the registration) can never be used on another thread again"))
    return 1


def other_kind_rule(rep, u, vals):
    """add / enable of another kind of event on a record that is live (timer over read, read over timer, timer over process
    watch ...) is refused: installing it would leak the pool's descriptor or lose the registration.  Evaluated on the
    validator with tpdata = a live timer and the three other kinds (read <-> write stays a replacement)."""
    from rules import r_stride
    fv = tp.need(u, "tpt_ev_validate")
    rep.functions.add(fv.name)
    n = 0
    TIMER, PROC, READ, WRITE = vals["TP_EV_TIMER"], vals["TP_EV_PROC"], vals["TP_EV_READ"], vals["TP_EV_WRITE"]
    def live(kind):
        return (1 << 62) | (kind << 32) | 6        # ADDED mark, kind, a descriptor + 1
    for old_k, new_k, want_refused in ((TIMER, READ, True), (READ, TIMER, True), (PROC, TIMER, True), (TIMER, PROC, True), (READ, WRITE, False), (TIMER, TIMER, False)):
        pe = r_stride.PE(u)
        bind = {"op": vals["TP_CTL_ADD"], "ev": 0x3000, "tp_udata": 0x4000, "ev->event": new_k, "ev->flags": 0, "ev->fflags": 0, "ev->data": 5,
                "tp_udata->tpdata": live(old_k), "tp_udata->cb_func": 0x5000, "tp_udata->ident": 7, "tp_udata->tpt": 0x6000, "tp_udata->tpt->tp": 0x7000,
                "tp_udata->tpt->tp->fd_count": 1024}
        ev, ret = pe.trace(fv, bind)
        n += 1
        inst = "live-kind-%d-add-kind-%d" % (old_k, new_k)
        desc = "tpt_ev_validate: add of kind %d on a record live with kind %d is %s" % (new_k, old_k, "refused" if want_refused else "accepted")
        if isinstance(ret, str):
            rep.undecided("R-KIND", fv, inst, desc, ret)
        elif (ret != 0) == want_refused:
            rep.proved("R-KIND", fv, inst, desc, "status %s" % ret)
        else:
            rep.violated("R-KIND", fv, inst, desc, "status %s: add(READ) then add(TIMER) on the same record both return 0 - the read callback never comes, the worker spins, del(READ) says ENOENT" % ret)
    return n


def tpdata_bookkeeping_rule(rep, fp, fl, vals):
    """bits of tpdata that later tests rely on are really stored where the state is established:
      * the 'added' mark tested by delete / disable is set on the read/write add path,
      * the clock-kind mark compared on re-arming is set when the timerfd is created for absolute time,
      * in the loop the DISPATCH 'disabled' mark is not set for a timer before its expiration was read (a worker that loses
        the read would otherwise disable a timer the winner's callback has just re-enabled)."""
    probes = tp.probe(tp.TP_C, {"ADDED": "IFDEF:TPDATA_F_ADDED", "ABS": "IFDEF:TPDATA_F_ABSTIME"}, "probe:tpdata:marks")
    n = 0
    for nm, what, why in (("ADDED", "the 'added' mark is stored on the add path", "never stored: every delete / disable answers ENOENT"),
                          ("ABS", "the clock-kind mark is stored when the timerfd is created for absolute time", "never stored: a later relative arming is taken for the same clock")):
        v = probes.get(nm)
        if v is None:
            continue
        tested = any(any(const_val(y) == v for y, _ in _walk(fp.blocks[b].cond)) for b in fp.reachable_blocks() if fp.blocks[b].cond is not None)
        stored = any(x.get("k") == "bin" and x["op"] == "|=" and const_val(x["y"]) == v for p_, r_, x, _ in fp.nodes())
        if not tested:
            continue
        n += 1
        (rep.proved if stored else rep.violated)("R-KIND" if nm == "ADDED" else "R-CLOCK", fp, "mark-stored:%s" % nm, "tpt_ev_post: " + what, "" if stored else why)
    # loop: DISABLED stores
    dis = vals["TPDATA_F_DISABLED"]
    reads = [pos for pos, root, c, ps in fl.calls({"read"})]
    for pos, root, x, ps in fl.nodes():
        if x.get("k") == "bin" and x["op"] == "|=" and const_val(x["y"]) == dis:
            n += 1
            after_read = any(fl.pos_dominates(r_, pos) for r_ in reads)
            excl = False
            for bid in fl.reachable_blocks():
                cnd = fl.blocks[bid].cond
                if cnd is not None and fl.dominates(bid, pos[0]) and bid != pos[0] and \
                        any(y.get("k") == "bin" and y["op"] in ("==", "!=") and
                            ((const_val(y["x"]) == vals["TP_EV_TIMER"] and "event" in key(y["y"])) or (const_val(y["y"]) == vals["TP_EV_TIMER"] and "event" in key(y["x"])))
                            for y, _ in _walk(cnd)) and \
                        pos[0] in fl.blocks[bid].rsucc() and len(fl.blocks[bid].rsucc()) == 2:
                    excl = True                      # the store is one arm of this very test
            desc = "tpt_loop: the DISPATCH 'disabled' mark at line %s is not set for a timer whose expiration this thread has not read" % x.get("ln")
            (rep.proved if (after_read or excl) else rep.violated)("R-READOK", fl, "disabled-mark-after-read#%d" % n, desc, "behind the read" if after_read else ("timers excluded" if excl else
                                                                   "set for every event kind before the switch: a worker that loses the read of a shared timer disables it after the winner's callback re-enabled it"), x.get("ln"))
    return n



def stale_errno_rule(rep, fl):
    """the error code handed to the callback with TP_F_ERROR comes from the descriptor (SO_ERROR) or from a call made for
    it, never from whatever errno held when the event arrived: in the EPOLLERR arm every read of errno is preceded, inside
    the arm, by a library call that can set it"""
    n = 0
    arms = []
    for bid in fl.reachable_blocks():
        c = fl.blocks[bid].cond
        if c is not None and any("EPOLLERR" in core.macros(y) for y, _ in _walk(c)):
            arms.append(bid)
    if not arms:
        raise driver.AnalysisBroken("tpt_loop: EPOLLERR test not found")
    for a in arms:
        t_ = fl.blocks[a].succ[0]
        pd = fl.pdom().get(a, set()) - {a}
        arm = fl.reach_from([t_], avoid=pd) | {t_}
        calls = [pos for pos, root, c, ps in fl.calls() if pos[0] in arm and c.get("fn") not in (None, "__errno_location")]
        for pos, root, c, ps in fl.calls({"__errno_location"}):
            if pos[0] not in arm:
                continue
            n += 1
            ok = any(fl.pos_dominates(cp, pos) for cp in calls)
            desc = "tpt_loop: errno is read in the error arm only after a call made there"
            (rep.proved if ok else rep.violated)("R-ERRNO", fl, "errno-fresh@%d" % n, desc, "" if ok else
                                                 "ev.fflags = errno before any call: on a pipe getsockopt fails (ENOTSOCK) and the stale value stays - a write task on a full "
                                                 "pipe whose reader closed is told EAGAIN, which the task layer treats as 'no error' and calls back without end", c.get("ln"))
    if n == 0:
        rep.proved("R-ERRNO", fl, "errno-fresh", "tpt_loop: errno is not read in the error arm before a call made there", "no read of errno in the arm before a call")
        n = 1
    return n
