"""Unit specifications shared by the property modules."""
from rules.driver import UnitSpec

# configuration of the test build (tests/ecdsa/main.c)
EC_TEST_DEFS = (
    "BN_DIGIT_BIT_CNT=64", "BN_BIT_LEN=1408", "BN_CC_MULL_DIV=1", "BN_NO_POINTERS_CHK=1",
    "BN_MOD_REDUCE_ALGO=BN_MOD_REDUCE_ALGO_BASIC", "BN_SELF_TEST=1",
    "EC_USE_PROJECTIVE=1", "EC_PROJ_REPEAT_DOUBLE=1", "EC_PROJ_ADD_MIX=1",
    "EC_PF_FXP_MULT_ALGO=EC_PF_FXP_MULT_ALGO_COMB_2T", "EC_PF_FXP_MULT_WIN_BITS=9",
    "EC_PF_UNKPT_MULT_ALGO=EC_PF_UNKPT_MULT_ALGO_COMB_1T", "EC_PF_UNKPT_MULT_WIN_BITS=2",
    "EC_PF_TWIN_MULT_ALGO=EC_PF_TWIN_MULT_ALGO_INTER", "EC_DISABLE_PUB_KEY_CHK=1", "EC_SELF_TEST=1",
)


def ecdsa_unit(label, defs=()):
    return UnitSpec(label, "hdr", "crypto/dsa/ecdsa.h", defines=defs)


def hdr_unit(label, hdr, defs=(), cflags=()):
    return UnitSpec(label, "hdr", hdr, defines=defs, cflags=cflags)


def src_unit(rel, label=None, defs=(), cflags=()):
    return UnitSpec(label or rel, "src", rel, defines=defs, cflags=cflags)


# al/os.h as a platform without memmem / memrchr / reallocarray / explicit_bzero compiles it: the repository's own
# replacements become code to analyse.  glibc declares these names, so the replacements are renamed for the parse.
OS_PORTABLE = "al/os.h"
OS_PORTABLE_PREFIX = "lcbfb_"


def os_portable_unit():
    names = ("memmem", "memrchr", "reallocarray", "explicit_bzero")
    pre = "".join("#define %s %s%s\n" % (n, OS_PORTABLE_PREFIX, n) for n in names)
    return UnitSpec(OS_PORTABLE, "hdr", "al/os.h", defines=tuple("!HAVE_" + n.upper() for n in names), pre_text=pre)
