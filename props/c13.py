"""C13 — network message parsers: memory safety and boundedness on hostile packets.

Same engine as C12 (relational abstract interpretation + loop progress + short-circuit order) over the DNS, RADIUS,
DHCPv4, HTTP, SDP, SAP, RTP and MPEG-TS code, plus:
  * compression-pointer walkers carry a jump counter compared with a constant that grows on every jump
Undecided accesses are listed in the evidence and are not claimed.
"""
from rules import driver, core, r_mpt, r_stride
from rules.core import walk, key, const_val
from props import common, memsafe, fixtures

TRUSTED = ["clang 14 front end + CFG builder", "tool/lcbfacts.cc", "rules/absint.py", "libc contracts of memchr/memmem/memcpy", "python3"]
HDRS = ["proto/dns.h", "proto/radius.h", "proto/dhcpv4.h", "proto/sdp.h", "proto/sap.h", "proto/rtp.h", "proto/mpeg2ts.h"]
SRCS = ["src/proto/http.c"]


def specs():
    return [common.hdr_unit(h, h) for h in HDRS] + [common.src_unit(s) for s in SRCS]


def jump_counter_rule(rep, u):
    """every loop that follows DNS compression pointers compares a counter with a constant, and the counter is
    incremented in the arm that follows a pointer"""
    n = 0
    for fn in u.function_list:
        if fn.relfile() != "include/proto/dns.h":
            continue
        loops = fn.loops()
        for h, body in loops.items():
            # pointer arm: a block in the loop masking with 0xc0 / comparing with 0xc0
            ptr_arm = False
            for b in body:
                c = fn.blocks[b].cond
                if c is not None and any(const_val(x) in (0xc0, 192) for x, _ in walk(c)):
                    ptr_arm = True
            # a jump: inside the loop a pointer that the loop dereferences is re-seated (assigned an expression
            # that does not mention itself), i.e. the cursor can move backwards
            jump = False
            for b in body:
                for e in fn.blocks[b].elems:
                    if e.get("k") == "bin" and e["op"] == "=" and core.strip_casts(e["x"]).get("k") == "ref" and \
                            fn.unit.type(core.strip_casts(e["x"])["t"])["k"] == "ptr":
                        v = core.strip_casts(e["x"])
                        if v["id"] not in core.ref_ids(e["y"]):
                            jump = True
            if not ptr_arm or not jump:
                continue
            n += 1
            cnt = None
            for b in body:
                c = fn.blocks[b].cond
                if c is None:
                    continue
                c0 = core.strip_casts(c)
                if c0.get("k") == "bin" and c0["op"] in ("<", ">", "<=", ">=") and \
                        (const_val(c0["x"]) is not None or const_val(c0["y"]) is not None):
                    v = core.strip_casts(c0["y"] if const_val(c0["x"]) is not None else c0["x"])
                    if v.get("k") == "ref" and fn.unit.type(v["t"])["k"] == "int":
                        incs = [x for bb in body for e in fn.blocks[bb].elems for x, _ in walk(e)
                                if x.get("k") == "un" and "++" in x["op"] and core.is_ref(x["e"], name=v["n"])]
                        if incs:
                            cnt = v["n"]
            desc = "the compression-pointer loop at line %s is bounded by a jump counter" % (fn.blocks[h].term or {}).get("ln")
            if cnt:
                rep.proved("R-PROGRESS", fn, "jump-counter", desc, "counter '%s' is incremented in the loop and compared with a constant" % cnt)
            else:
                rep.violated("R-PROGRESS", fn, "jump-counter", desc, "no counter compared with a constant is incremented in the loop: "
                             "a pointer cycle loops forever")
    return n


def run(rep, tier):
    us = driver.load_units(specs())
    rep.use_units(us)
    nfn, total = memsafe.run_scope(rep, tier, us)
    rep.floor("functions analysed", nfn, 100)
    rep.floor("tracked memory accesses", total, 150)
    nj = jump_counter_rule(rep, us["proto/dns.h"])
    rep.floor("compression pointer loops", nj, 2)
    ns = 0
    for lab, u in us.items():
        own = ("include/" + lab, lab)
        ns += r_stride.check(rep, u, [f for f in u.function_list if f.relfile() in own])
    rep.floor("data-dependent strides (TLV walkers)", ns, 4)
    return driver.finish(
        rep, "other",
        "Relational abstract interpretation of %d protocol functions (DNS, RADIUS, DHCPv4, HTTP, SDP, SAP, RTP, MPEG-TS). Per access: "
        "inside its buffer for every packet (proved), bound present but insufficient (reported), undecided (listed, not claimed); "
        "loop progress; short-circuit order; bounded compression-pointer walks; attribute walkers whose stride is a length "
        "field of the packet reject a zero length before advancing (R-STRIDE, partial evaluation through the validators they call). NOT decided: accesses listed as undecided and "
        "accesses through pointers whose capacity is a field of the packet itself (RADIUS/DHCP attribute walks are mostly of that kind)." % nfn,
        ["(pointer,size) pairs as tabled in props/memsafe.py"], TRUSTED)


def selftest():
    u = fixtures.load("stride.c")
    rep = driver.Report("fixture", "quick")
    r_stride.check(rep, u, [f for f in u.function_list if f.name.startswith("fx_tlv")])
    fixtures.expect(rep, ["fx_tlv_bad", "fx_tlv_bad_callee"], ["fx_tlv_ok", "fx_tlv_ok_callee", "fx_tlv_ok_plus"], "R-STRIDE")
    memsafe.selftest_cursor()
