"""C13 — network message parsers: memory safety and boundedness on hostile packets.

Same engine as C12 (relational abstract interpretation + loop progress + short-circuit order) over the DNS, RADIUS,
DHCPv4, HTTP, SDP, SAP, RTP and MPEG-TS code, plus:
  * compression-pointer walkers carry a jump counter compared with a constant that grows on every jump
Undecided accesses are listed in the evidence and are not claimed.
"""
from rules import driver, core, r_mpt, r_stride
from rules.core import walk, key, const_val
from props import common, memsafe, fixtures

TRUSTED = ["clang 14 front end + CFG builder", "tool/lcbfacts.cc", "rules/absint.py", "libc contracts of memchr/memmem/memcpy", "python3"]
HDRS = ["proto/dns.h", "proto/radius.h", "proto/dhcpv4.h", "proto/sdp.h", "proto/sap.h", "proto/rtp.h", "proto/mpeg2ts.h"]
SRCS = ["src/proto/http.c"]


def specs():
    return [common.hdr_unit(h, h) for h in HDRS] + [common.src_unit(s) for s in SRCS]


def jump_counter_rule(rep, u):
    """every loop that follows DNS compression pointers compares a counter with a constant, and the counter is
    incremented in the arm that follows a pointer"""
    n = 0
    for fn in u.function_list:
        if fn.relfile() != "include/proto/dns.h":
            continue
        loops = fn.loops()
        for h, body in loops.items():
            # pointer arm: a block in the loop masking with 0xc0 / comparing with 0xc0
            ptr_arm = False
            for b in body:
                c = fn.blocks[b].cond
                if c is not None and any(const_val(x) in (0xc0, 192) for x, _ in walk(c)):
                    ptr_arm = True
            # a jump: inside the loop a pointer that the loop dereferences is re-seated (assigned an expression
            # that does not mention itself), i.e. the cursor can move backwards
            jump = False
            for b in body:
                for e in fn.blocks[b].elems:
                    if e.get("k") == "bin" and e["op"] == "=" and core.strip_casts(e["x"]).get("k") == "ref" and \
                            fn.unit.type(core.strip_casts(e["x"])["t"])["k"] == "ptr":
                        v = core.strip_casts(e["x"])
                        if v["id"] not in core.ref_ids(e["y"]):
                            jump = True
            if not ptr_arm or not jump:
                continue
            n += 1
            cnt = None
            for b in body:
                c = fn.blocks[b].cond
                if c is None:
                    continue
                c0 = core.strip_casts(c)
                if c0.get("k") == "bin" and c0["op"] in ("<", ">", "<=", ">=") and \
                        (const_val(c0["x"]) is not None or const_val(c0["y"]) is not None):
                    v = core.strip_casts(c0["y"] if const_val(c0["x"]) is not None else c0["x"])
                    if v.get("k") == "ref" and fn.unit.type(v["t"])["k"] == "int":
                        incs = [x for bb in body for e in fn.blocks[bb].elems for x, _ in walk(e)
                                if core.step_of(x) is not None and core.step_of(x)[1] > 0 and core.is_ref(core.strip_casts(core.step_of(x)[0]), name=v["n"])]
                        if incs:
                            cnt = v["n"]
            desc = "the compression-pointer loop at line %s is bounded by a jump counter" % (fn.blocks[h].term or {}).get("ln")
            if cnt:
                # the counter limits *jumps*: it grows only where a pointer is followed.  An increment that a plain label also
                # reaches turns the anti-loop limit into a limit on the number of labels, and legal names of 64..127 labels are refused
                jump_blocks = set()
                for b in body:
                    for e in fn.blocks[b].elems:
                        if e.get("k") == "bin" and e["op"] == "=" and core.strip_casts(e["x"]).get("k") == "ref" and \
                                fn.unit.type(core.strip_casts(e["x"])["t"])["k"] == "ptr" and \
                                core.strip_casts(e["x"])["id"] not in core.ref_ids(e["y"]):
                            jump_blocks.add(b)
                inc_blocks = {bb for bb in body for e in fn.blocks[bb].elems for x, _ in walk(e)
                              if core.step_of(x) is not None and core.step_of(x)[1] > 0 and core.is_ref(core.strip_casts(core.step_of(x)[0]), name=cnt)}
                # blocks a non-jumping iteration passes: reachable from the head inside the body without entering a jump block
                seen, st = set(), [h]
                while st:
                    b = st.pop()
                    if b in seen or b in jump_blocks or b not in body:
                        continue
                    seen.add(b)
                    st.extend(s_ for s_ in fn.blocks[b].rsucc() if s_ != h or True)
                # a block counts for the label path if, from it, the head is reached again without a jump block in between
                label_path = {b for b in seen if h in fn.reach_from([s_ for s_ in fn.blocks[b].rsucc()], avoid=list(jump_blocks)) or h in fn.blocks[b].rsucc()}
                desc2 = "the jump counter of the loop at line %s grows only where a compression pointer is followed" % (fn.blocks[h].term or {}).get("ln")
                shared = [b for b in inc_blocks if b in label_path and b not in jump_blocks and
                          not any(fn.dominates(j, b) for j in jump_blocks)]
                if shared:
                    rep.violated("R-PROGRESS", fn, "jump-counter-scope", desc2, "'%s' is also incremented on the path of an ordinary label (block B%d): the "
                                 "limit on pointer jumps becomes a limit on the number of labels, and legal names with more labels than the limit "
                                 "are refused" % (cnt, shared[0]))
                else:
                    rep.proved("R-PROGRESS", fn, "jump-counter-scope", desc2, "increments in %d block(s), all behind a pointer jump" % len(inc_blocks))
                rep.proved("R-PROGRESS", fn, "jump-counter", desc, "counter '%s' is incremented in the loop and compared with a constant" % cnt)
            else:
                rep.violated("R-PROGRESS", fn, "jump-counter", desc, "no counter compared with a constant is incremented in the loop: "
                             "a pointer cycle loops forever")
    return n


def _field_atoms(fn):
    """leaf fields of the record the first parameter points to: {key: (node, value bits)}"""
    u = fn.unit
    p0 = fn.params[0]["n"]
    out = {}
    for pos, root, x, ps in fn.nodes():
        if x.get("k") != "mem":
            continue
        if ps and ps[-1].get("k") == "mem" and core.strip_casts(ps[-1].get("b")) is x:
            continue                       # an inner step of a longer path
        b = x
        while b.get("k") == "mem":
            b = core.strip_casts(b["b"])
        if not (b.get("k") == "ref" and b.get("n") == p0):
            continue
        bits = None
        for f in (u.records.get(x.get("rec")) or {}).get("fields", []):
            if f["n"] == x["f"]:
                bits = f.get("bits") or (u.type(f["t"]).get("w") if u.type(f["t"])["k"] == "int" else None)
        if bits:
            out[key(x)] = (x, bits)
    return out


def locator_rule(rep, u, fns=None):
    """R-AGREE (validator / locator): a function that returns a pointer into the packet at an offset computed from
    header fields never points past a packet its sibling validator accepts.  For every value of the fields the
    offset and the validator's size test depend on (full enumeration, at most 12 bits in total, else undecided),
    the validator is evaluated on packets one byte, two bytes and half the offset shorter than the returned offset:
    it must reject them."""
    import itertools
    BASE = 0x40000000
    own = [f for f in (fns if fns is not None else u.function_list) if f.has_cfg and f.params
           and (fns is not None or f.relfile() in ("include/" + u.label, u.label)) and u.type(f.params[0]["t"])["k"] == "ptr"]
    vals, locs = [], []
    for fn in own:
        at = _field_atoms(fn)
        if not at:
            continue
        rt = u.type(fn.ret)
        if rt["k"] == "ptr":
            locs.append((fn, at))
        elif rt["k"] == "int" and len(fn.params) >= 2 and u.type(fn.params[1]["t"])["k"] == "int":
            n1 = fn.params[1]["n"]
            cmp_n = [c for b in fn.blocks.values() for c in [b.cond] if c is not None and
                     any(core.is_ref(x, name=n1) for x, _ in walk(c)) and
                     any(x.get("k") == "mem" for x, _ in walk(c))]
            if cmp_n:
                # fields compared together with the size take part in the enumeration
                szf = {key(x) for c in cmp_n for x, _ in walk(c) if x.get("k") == "mem" and key(x) in at}
                vals.append((fn, at, szf))
    n = 0
    for L, la in locs:
        for V, va, szf in vals:
            if not set(la) <= set(va):
                continue
            la = dict(la)
            for a in szf:
                la.setdefault(a, va[a])
            n += 1
            rep.functions.add(L.name)
            rep.functions.add(V.name)
            inst = "locator:%s/%s" % (L.name, V.name)
            desc = "%s returns a pointer inside every packet %s accepts (offset from fields %s)" % (L.name, V.name, ", ".join(sorted(la)))
            names = sorted(la)
            if sum(la[a][1] for a in names) > 12:
                rep.undecided("R-AGREE", L, inst, desc, "more than 12 bits of header fields drive the offset and the size test: not enumerated")
                continue
            bad = None
            unknown = None
            cases = 0
            pe_l = r_stride.PE(u, call_default={"mem_chr_ptr": 0, "mem_chr": 0})
            pe_v = r_stride.PE(u)
            for combo in itertools.product(*[range(1 << la[a][1]) for a in names]):
                fb = dict(zip(names, combo))
                bl = dict(fb)
                bl[L.params[0]["n"]] = BASE
                outs = pe_l.outcomes(L, bl, 0)
                offs = set()
                for v, sure in outs:
                    if v is None:
                        unknown = "the returned pointer of %s is not a computable offset for %s" % (L.name, fb)
                    elif v != 0:
                        offs.add(v - BASE)
                for off in offs:
                    for sz in sorted({off - 1, off - 2, off // 2, 0}):
                        if sz < 0 or sz >= off:
                            continue
                        cases += 1
                        bv = dict(fb)
                        bv[V.params[0]["n"]] = BASE
                        bv[V.params[1]["n"]] = sz
                        vo = pe_v.outcomes(V, bv, 0)
                        if any(v is None for v, s_ in vo):
                            unknown = "the result of %s is not computable for %s size %d" % (V.name, fb, sz)
                        elif any(v != 0 for v, s_ in vo) and bad is None:
                            bad = (fb, off, sz)
            if bad:
                fb, off, sz = bad
                rep.violated("R-AGREE", L, inst, desc, "with %s the validator accepts a packet of %d bytes but %s returns packet + %d" % (
                    ", ".join("%s=%d" % (a.split("->")[-1], fb[a]) for a in names), sz, L.name, off))
            elif unknown:
                rep.undecided("R-AGREE", L, inst, desc, unknown)
            else:
                rep.proved("R-AGREE", L, inst, desc, "%d (field values, packet size) cases evaluated; when the callee finds a terminator the "
                           "result is bounded by its contract (mem_chr_ptr returns a pointer below packet + size)" % cases)
    return n


def validator_guard_rule(rep, u, lab):
    """R-GUARD0 (read form): a validator of untrusted input (name ends in _chk / _check / _is_valid / _validate) reads a
    header field of its (pointer, size) input only after a test of the size: some branch that dominates the read - not the
    condition the read itself sits in - mentions the size parameter.  (A datagram shorter than the fixed header must be
    refused before the header is looked at.)"""
    import re
    n = 0
    for fn in u.function_list:
        if not fn.has_cfg or fn.relfile() not in (lab, "include/" + lab) or not re.search(r"(_chk|_check|_is_valid|_validate)$", fn.name):
            continue
        for pn, sn, _es in memsafe.pairs_for(fn):
            per = 0
            for pos, root, x, ps in fn.nodes():
                if not (x.get("k") == "mem" and x.get("arrow")):
                    continue
                b = core.strip_casts(x["b"])
                if not (b.get("k") == "ref" and b.get("n") == pn and b.get("dk") == "parm"):
                    continue
                per += 1
                n += 1
                rep.functions.add(fn.name)
                guarded = any(fn.blocks[bid].cond is not None and bid != pos[0] and fn.dominates(bid, pos[0]) and
                              any(y.get("k") == "ref" and y.get("n") == sn for y, _ in walk(fn.blocks[bid].cond))
                              for bid in fn.reachable_blocks())
                desc = "%s reads %s only after a test of %s" % (fn.name, key(x), sn)
                (rep.proved if guarded else rep.violated)(
                    "R-GUARD0", fn, "header-read:%s#%d" % (x.get("f"), per), desc,
                    "" if guarded else "no earlier branch tests '%s': for an input shorter than the header the field at offset %d is read from "
                    "beyond the caller's bytes" % (sn, x.get("off", 0) // 8), x.get("ln"))
    return n


def label_helpers_rule(rep, u):
    """The two flat label-sequence helpers, evaluated over every sequence of 1..4 bytes drawn from the five byte classes
    {0x00 end, 0x01/0x02 short label, 0x40/0x80 extension, 0xC0 pointer, 0x61 data}:
      * SequenceOfLabelsGetSize: on success the reported size is <= buf_size (its callers advance by it);
      * SequenceOfLabelsToDomainName: for every output capacity the function's own precondition admits, every store
        (the label copies, the '.' separators and the terminator) lies inside name[0 .. name_buf_size)."""
    import itertools
    n = 0
    fs, ft = u.fn("SequenceOfLabelsGetSize"), u.fn("SequenceOfLabelsToDomainName")
    if fs is None or ft is None:
        raise driver.AnalysisBroken("anchors SequenceOfLabelsGetSize / SequenceOfLabelsToDomainName vanished")
    rep.functions.update([fs.name, ft.name])
    BUF, NAME, OUT = 0x10000, 0x20000, 0x30000
    classes = (0x00, 0x01, 0x02, 0x40, 0xC0, 0x61)
    bad = und = None
    for size in (1, 2, 3, 4):
        for seq in itertools.product(classes, repeat=size):
            pe = r_stride.PE(u)
            for i, b_ in enumerate(seq):
                pe.memory[BUF + i] = b_
            ev, ret = pe.trace(fs, {"buf": BUF, "buf_size": size, "name_len_ret": OUT})
            n += 1
            if isinstance(ret, str):
                und = und or "%s: %s" % (bytes(seq).hex(), ret)
                continue
            if ret == 0:
                got = ev[-1][1].get("*(name_len_ret)") if ev else None
                if got is None:
                    und = und or "reported size not evaluable"
                elif got > size:
                    bad = bad or "for the %d-byte sequence %s it succeeds and reports size %d: the caller's cursor moves %d byte(s) past the data" % (
                        size, bytes(seq).hex(), got, got - size)
    desc = "SequenceOfLabelsGetSize never reports more bytes than it was given"
    (rep.violated if bad else rep.undecided if und else rep.proved)("R-AGREE", fs, "reported-size<=buf_size", desc, bad or und or "%d sequences" % n)
    bad = und = None
    m = 0
    for size in (1, 2, 3, 4):
        for seq in itertools.product(classes, repeat=size):
            for cap in range(1, size + 2):
                pe = r_stride.PE(u)
                for i, b_ in enumerate(seq):
                    pe.memory[BUF + i] = b_
                ev, ret = pe.trace(ft, {"buf": BUF, "buf_size": size, "name": NAME, "name_buf_size": cap, "name_len_ret": 0})
                m += 1
                if isinstance(ret, str):
                    und = und or "%s cap %d: %s" % (bytes(seq).hex(), cap, ret)
                    continue
                for e, b in ev:
                    for x, _ in walk(e):
                        lo = hi = None
                        if x.get("k") == "bin" and x["op"] == "=" and core.strip_casts(x["x"]).get("k") == "un" and core.strip_casts(x["x"]).get("op") == "*":
                            vs = pe.evals(core.strip_casts(x["x"])["e"], b, 0)
                            if len(vs) == 1 and isinstance(vs[0][0], int):
                                lo, hi = vs[0][0], vs[0][0] + 1
                        if x.get("k") == "call" and x.get("fn") == "memcpy":
                            v0, v2 = pe.evals(x["args"][0], b, 0), pe.evals(x["args"][2], b, 0)
                            if len(v0) == 1 and len(v2) == 1 and isinstance(v0[0][0], int) and isinstance(v2[0][0], int) and v2[0][0] > 0:
                                lo, hi = v0[0][0], v0[0][0] + v2[0][0]
                        if lo is not None and not (NAME <= lo and hi <= NAME + cap) and NAME - 16 <= lo < NAME + 64:
                            bad = bad or "sequence %s into a %d-byte name buffer: a store at name[%d..%d) (line %s)" % (
                                bytes(seq).hex(), cap, lo - NAME, hi - NAME, x.get("ln"))
    desc = "SequenceOfLabelsToDomainName stores only inside name[0 .. name_buf_size) for every capacity its precondition admits"
    (rep.violated if bad else rep.undecided if und else rep.proved)("R-BOUND", ft, "name-stores", desc, bad or und or "%d (sequence, capacity) cases" % m)
    return n + m


def ts_validator_rule(rep, u, fname="mpeg2_ts_pkt_is_valid"):
    """The MPEG-TS packet validator, evaluated over packet size 188/204/208 x adaptation field flag x payload flag x
    adaptation field length (0, mid, size-7 .. size-4) x PID class (the five PSI PIDs, another, null): every header field
    it reads through a pointer derived from the packet lies inside ts_hdr[0 .. mpeg2_ts_pkt_size)."""
    import itertools
    fn = u.fn(fname)
    if fn is None or not fn.has_cfg:
        raise driver.AnalysisBroken("anchor %s vanished" % fname)
    rep.functions.add(fname)
    PKT = 0x100000
    n = 0
    bad = und = None
    pids = (0x0000, 0x0001, 0x0002, 0x0011, 0x0012, 0x0100, 0x1fff)
    for size, afe, cp, pid in itertools.product((188, 204, 208), (0, 1), (0, 1), pids):
        for aflen in ((0,) if not afe else (0, 100, size - 7, size - 6, size - 5, size - 4)):
            pe = r_stride.PE(u)
            for a in range(PKT, PKT + size + 16):
                pe.memory[a] = 0                       # table header bytes read as zero wherever they are
            pe.memory[PKT + 4] = aflen                 # adaptation_field_length, the byte behind the 4-byte header
            bind = {"ts_hdr": PKT, "mpeg2_ts_pkt_size": size, "ts_hdr->sb": 0x47, "ts_hdr->afe": afe, "ts_hdr->cp": cp,
                    "ts_hdr->pid_lo": pid & 0xff, "ts_hdr->pid_hi": (pid >> 8) & 0x1f, "ts_hdr->pid": pid}
            ev, ret = pe.trace(fn, bind)
            n += 1
            if isinstance(ret, str):
                und = und or "size %d afe %d cp %d af_len %d pid %#x: %s" % (size, afe, cp, aflen, pid, ret)
                continue
            for e, b in ev:
                for x, _ in walk(e):
                    if x.get("k") == "mem" and x.get("arrow") and "off" in x:
                        base = core.strip_casts(x["b"])
                        if base.get("k") == "ref" and base.get("n") in ("ts_hdr",):
                            continue
                        vs = pe.evals(x["b"], b, 0)
                        if len(vs) != 1 or not isinstance(vs[0][0], int):
                            continue
                        a0 = vs[0][0] + x["off"] // 8
                        w = ((x["off"] % 8 + x["bits"] + 7) // 8) if "bits" in x else (u.type(x["t"]).get("size") or 1)
                        if not (PKT <= a0 and a0 + w <= PKT + size):
                            bad = bad or "packet size %d, adaptation field %s (length %d), payload flag %d, PID %#x: the field %s is read at " \
                                "offset %d, %d byte(s) past the packet (line %s)" % (size, "present" if afe else "absent", aflen, cp, pid, x.get("f"),
                                                                                     a0 - PKT, a0 + w - (PKT + size), x.get("ln"))
    desc = "%s reads table-header fields only inside the packet it was given" % fname
    (rep.violated if bad else rep.undecided if und else rep.proved)("R-BOUND", fn, "header-reads-inside-packet", desc, bad or und or "%d cases" % n)
    return n


def serializer_capacity_rule(rep, u, suffix_gen="_serialize_data", suffix_calc="_serialize_calc_size"):
    """A generator that writes a *computed number* of fixed-size packets into (buf, buf_size) cannot test the capacity
    packet by packet against a single-packet bound: its size calculator is consulted, the answer compared with buf_size on
    an edge that leaves with an error, and that comparison dominates the first store through the buffer.
    (Found by the interpreter as a 4-byte miss: `buf_size >= one packet` was the only test, the adaptation field can push
    the payload into a second packet.)"""
    n = 0
    for fn in u.function_list:
        if not fn.has_cfg or not fn.name.endswith(suffix_gen):
            continue
        calc = u.fn(fn.name[:-len(suffix_gen)] + suffix_calc)
        if calc is None:
            continue
        pn = {p["n"] for p in fn.params}
        if not {"buf", "buf_size"} <= pn:
            continue
        n += 1
        rep.functions.add(fn.name)
        # first store through a pointer derived from buf
        derived = {"buf"}
        changed = True
        while changed:
            changed = False
            for pos, root, x, ps in fn.nodes():
                if x.get("k") == "bin" and x["op"] == "=" and core.strip_casts(x["x"]).get("k") == "ref":
                    if any(r["n"] in derived for r in core.refs(x["y"])) and core.strip_casts(x["x"])["n"] not in derived and \
                            u.type(core.strip_casts(x["x"])["t"])["k"] == "ptr":
                        derived.add(core.strip_casts(x["x"])["n"])
                        changed = True
        stores = []
        for pos, root, x, ps in fn.nodes():
            if x.get("k") == "bin" and x["op"] in ("=", "|=", "&=") and core.strip_casts(x["x"]).get("k") in ("mem", "sub", "un"):
                b0 = core.base_ref(x["x"])
                if b0 is not None and b0["n"] in derived and core.strip_casts(x["x"]).get("k") != "ref":
                    stores.append(pos)
        for pos, root, c, ps in fn.calls({"memcpy", "memset", "memmove"}):
            b0 = core.base_ref(c["args"][0])
            if b0 is not None and b0["n"] in derived:
                stores.append(pos)
        calls = [(pos, c) for pos, root, c, ps in fn.calls({calc.name})]
        ok = False
        why = "the size calculator %s is never called" % calc.name
        for cpos, c in calls:
            outs = [core.strip_casts(a["e"])["n"] for a in (core.strip_casts(a_) for a_ in c["args"]) if a.get("k") == "un" and a["op"] == "&" and
                    core.strip_casts(a["e"]).get("k") == "ref"]
            why = "its answer is not compared with buf_size before the first store"
            for bid in fn.reachable_blocks():
                cnd = fn.blocks[bid].cond
                if cnd is None:
                    continue
                names = {r["n"] for r in core.refs(cnd)}
                if "buf_size" in names and names & set(outs) and fn.pos_dominates(cpos, (bid, 0)) and stores and \
                        all(fn.dominates(bid, sp[0]) and bid != sp[0] for sp in stores) and \
                        any(const_val(r.get("e")) not in (None, 0) and fn.dominates(bid, rp[0]) for rp, r in fn.returns()):
                    ok = True
        desc = "%s: the capacity for ALL packets (from %s) is tested against buf_size before the first store" % (fn.name, calc.name)
        (rep.proved if ok else rep.violated)("R-CAPALL", fn, "calc-before-generate", desc, "%d stores behind the test" % len(stores) if ok else
                                             "%s: the only size test admits one packet; with an adaptation field that fills the first packet "
                                             "(af_size = 184, 10 data bytes, buf_size = 188) the second packet is written behind the buffer" % why)
    return n


def run(rep, tier):
    us = driver.load_units(specs())
    rep.use_units(us)
    nfn, total = memsafe.run_scope(rep, tier, us)
    rep.floor("functions analysed", nfn, 100)
    rep.floor("tracked memory accesses", total, 150)
    nj = jump_counter_rule(rep, us["proto/dns.h"])
    rep.floor("compression pointer loops", nj, 2)
    ns = 0
    for lab, u in us.items():
        own = ("include/" + lab, lab)
        ns += r_stride.check(rep, u, [f for f in u.function_list if f.relfile() in own])
    rep.floor("data-dependent strides (TLV walkers)", ns, 4)
    nl = sum(locator_rule(rep, u) for u in us.values())
    rep.floor("validator/locator pairs", nl, 2)
    rep.floor("validator header reads", sum(validator_guard_rule(rep, u, lab) for lab, u in us.items()), 12)
    rep.floor("label-sequence helper cases", label_helpers_rule(rep, us["proto/dns.h"]), 3000)
    rep.floor("TS validator cases", ts_validator_rule(rep, us["proto/mpeg2ts.h"]), 200)
    rep.floor("multi-packet generators", serializer_capacity_rule(rep, us["proto/mpeg2ts.h"]), 1)
    from props import c13_audit
    c13_audit.end_position_rule(rep, us["proto/radius.h"])
    c13_audit.chunk_end_rule(rep, us["src/proto/http.c"])
    rep.floor("pointer cursor/limit obligations (dns.h)", c13_audit.cursor_limit_rule(rep, us["proto/dns.h"]), 8)
    rep.floor("validator bounds against name tables", c13_audit.table_bound_rule(rep, us["proto/dhcpv4.h"]), 1)
    nw = 0
    for lab_, u_ in us.items():
        nw += c13_audit.offset_wrap_rule(rep, u_, lab_ if lab_.startswith("src/") else "include/" + lab_)
    rep.floor("differences of unsigned parameters in bound tests", nw, 1)
    rep.floor("stores of the copy-and-convert routines", c13_audit.output_only_rule(rep, us["src/proto/http.c"]), 2)
    c13_audit.chunk_result_rule(rep, us["src/proto/http.c"])
    udr = driver.load_units([common.src_unit("src/proto/dns_resolv.c")])
    rep.use_units(udr)
    c13_audit.cache_type_flag_rule(rep, udr["src/proto/dns_resolv.c"])
    c13_audit.queued_task_rule(rep, udr["src/proto/dns_resolv.c"])
    rep.floor("SDP scan byte classes", c13_audit.sdp_high_byte_rule(rep, us["proto/sdp.h"]), 4)
    usap = driver.load_units([common.src_unit("src/proto/sap_rcvr.c")])["src/proto/sap_rcvr.c"]
    rep.floor("terminated receive buffers", c13_audit.terminator_room_rule(rep, usap, "src/proto/sap_rcvr.c"), 1)
    # request line: the components returned are sub-spans of the target (rule lives in C20)
    from props import c20
    rep.floor("target component searches", c20.span_rule(rep, us["src/proto/http.c"]), 2)
    # fixed headers read through bit-field records: the declaration for big-endian hosts names the same wire bits as the
    # one for little-endian hosts (the validators and locators read these fields on either kind of host)
    from rules import r_bitlayout
    nbf = 0
    for h in ("proto/mpeg2ts.h", "proto/rtp.h", "proto/sap.h"):
        ub = driver.load_units(r_bitlayout.units_for(h)[1:])
        rep.use_units(ub)
        ub[h] = us[h]
        nbf += r_bitlayout.check(rep, ub, h)
    rep.floor("header bit-fields compared in both byte orders", nbf, 100)
    from rules import r_endian
    nwf = 0
    for lab, u in us.items():
        a, b = r_endian.check(rep, u, [f for f in u.function_list if f.file.startswith(core.REPO + "/")])
        nwf += a
    rep.floor("wire fields read through ntoh*", nwf, 15)
    return driver.finish(
        rep, "other",
        "Relational abstract interpretation of %d protocol functions (DNS, RADIUS, DHCPv4, HTTP, SDP, SAP, RTP, MPEG-TS). Per access: "
        "inside its buffer for every packet (proved), bound present but insufficient (reported), undecided (listed, not claimed); "
        "loop progress; short-circuit order; bounded compression-pointer walks; attribute walkers whose stride is a length "
        "field of the packet reject a zero length before advancing (R-STRIDE, partial evaluation through the validators they call); "
        "header locators stay inside every packet their validator accepts (R-AGREE, full enumeration of the header fields involved); "
        "length and count fields in network byte order are converted before any arithmetic or ordering comparison (R-ENDIAN). NOT decided: accesses listed as undecided and "
        "accesses through pointers whose capacity is a field of the packet itself (RADIUS/DHCP attribute walks are mostly of that kind)." % nfn,
        ["(pointer,size) pairs as tabled in props/memsafe.py"], TRUSTED)


def selftest():
    u = fixtures.load("stride.c")
    rep = driver.Report("fixture", "quick")
    r_stride.check(rep, u, [f for f in u.function_list if f.name.startswith("fx_tlv")])
    fixtures.expect(rep, ["fx_tlv_bad", "fx_tlv_bad_callee"], ["fx_tlv_ok", "fx_tlv_ok_callee", "fx_tlv_ok_plus"], "R-STRIDE")
    memsafe.selftest_cursor()
    u = fixtures.load("locator.c")
    rep = driver.Report("fixture", "quick")
    locator_rule(rep, u, [f for f in u.function_list if f.name.startswith("fx_")])
    fixtures.expect(rep, ["fx_pkt_payload_bad", "fx_pkt_opts_bad"], ["fx_pkt_payload_ok"], "R-AGREE locator")
