"""C02 - group-law formulas in Jacobian coordinates, decided over the polynomial domain (rules/r_poly.py).

Each formula routine is traced on its general path (partial evaluation with the exceptional-case predicates false) and
its bn_mod_* calls are interpreted over Z[X1, Y1, Z1, X2, Y2, Z2, a]: the three output coordinates become polynomials in
the inputs.  They are compared with the textbook formulas (Hankerson-Menezes-Vanstone, Guide to ECC, 3.2.2) *projectively*:
(X, Y, Z) ~ (l^2 X, l^3 Y, l Z), i.e.  X_f * Zr^2 == Xr * Z_f^2  and  Y_f * Zr^3 == Yr * Z_f^3  as polynomials.  The
comparison is independent of temporaries, statement order, helper choice (square / mult / exp_digit), sign conventions
and scaling tricks (the repeated doubling keeps 2Y and halves at the end).  Reduction mod p is a ring homomorphism, so
equality over Z implies equality mod p for every curve."""
from rules import driver, core, r_mpt, r_stride, r_poly
from rules.core import walk, key, const_val, strip_casts

P = r_poly.Poly


def _clear_half(p):
    """(q, K) with q = 2^K * p and the symbol `half` (= 1/2) eliminated; K is the largest power of `half` in p"""
    terms = []
    K = 0
    for mono, c in p.t.items():
        k = 0
        rest = []
        for s_, e in mono:
            if s_ == "half":
                k = e
            else:
                rest.append((s_, e))
        K = max(K, k)
        terms.append((tuple(rest), k, c))
    out = {}
    for rest, k, c in terms:
        out[rest] = out.get(rest, 0) + c * (2 ** (K - k))
    return P(out), K


def _ref_double(X, Y, Z, a):
    M = P.const(3) * X * X + a * (Z ** 4)
    S = P.const(4) * X * Y * Y
    T = P.const(8) * (Y ** 4)
    X3 = M * M - P.const(2) * S
    Y3 = M * (S - X3) - T
    Z3 = P.const(2) * Y * Z
    return X3, Y3, Z3


def _ref_add(X1, Y1, Z1, X2, Y2, Z2):
    U1, U2 = X1 * Z2 * Z2, X2 * Z1 * Z1
    S1, S2 = Y1 * (Z2 ** 3), Y2 * (Z1 ** 3)
    H, R = U2 - U1, S2 - S1
    X3 = R * R - (H ** 3) - P.const(2) * U1 * H * H
    Y3 = R * (U1 * H * H - X3) - S1 * (H ** 3)
    Z3 = H * Z1 * Z2
    return X3, Y3, Z3


def _trace(u, fn, bind, predicates):
    cd = {nm: 0 for nm in u.functions if nm.startswith(("bn_", "ec_"))}
    cd.update(predicates)
    pe = r_stride.PE(u, call_default=cd)
    ev, ret = pe.trace(fn, bind, max_steps=60000)
    if isinstance(ret, str):
        return None, ret

    def const_of(a, b):
        try:
            return r_mpt.eval_expr(a, {}, pe._hook(b, {}))
        except (r_mpt.Unknown, KeyError, TypeError):
            return const_val(a)
    store, _cm = r_poly.interpret(ev, const_of)
    return store, ret


def _projectively_equal(got, ref):
    (xf, yf, zf), (xr, yr, zr) = got, ref
    xf, kx = _clear_half(xf)
    yf, ky = _clear_half(yf)
    zf, kz = _clear_half(zf)
    if xf is None or yf is None or zf is None:
        return "a coordinate mixes halved and unhalved terms"
    if any("?" in s_ for p_ in (xf, yf, zf) for mono in p_.t for s_, _e in mono):
        return "a coordinate depends on a call the polynomial domain does not model"
    # undo the halvings on the reference side: coordinate * 2^k
    lx = xf * zr * zr
    rx = xr * zf * zf
    # X_f = half^kx * xf', Z_f = half^kz * zf'  =>  xf' zr^2 2^(2kz) == xr zf'^2 2^(kx)
    if lx * P.const(2 ** (2 * kz)) != rx * P.const(2 ** kx):
        return "X differs from the reference (X_f Zr^2 != Xr Z_f^2)"
    ly = yf * (zr ** 3)
    ry = yr * (zf ** 3)
    if ly * P.const(2 ** (3 * kz)) != ry * P.const(2 ** ky):
        return "Y differs from the reference (Y_f Zr^3 != Yr Z_f^3)"
    if not zf.t:
        return "Z is identically zero"
    return None


def check(rep, u, EC_H):
    n = 0
    # ---- repeated doubling
    fn = u.fn("ec_point_proj_dbl_n")
    if fn is not None and fn.has_cfg and fn.relfile() == EC_H and any(c.get("fn") == "bn_mod_square" for _, _, c, _ in fn.calls()):
        rep.functions.add(fn.name)
        pt, nn, cv = [p["n"] for p in fn.params[:3]]
        X, Y, Z = P.sym(pt + "->x"), P.sym(pt + "->y"), P.sym(pt + "->z")
        for am3, cnt in ((False, 1), (False, 2), (True, 1), (True, 2)):
            a = P.const(-3) if am3 else P.sym(cv + "->a")
            store, ret = _trace(u, fn, {pt: 0x1000, nn: cnt, cv: 0x3000, cv + "->flags": 0xffffffff if am3 else 0, cv + "->m": 256},
                                {"bn_is_zero": 0, "ec_point_proj_is_at_infinity": 0, "bn_is_odd": 0})
            n += 1
            inst = "formula:dbl_n:%s:n=%d" % ("a=-3" if am3 else "general-a", cnt)
            desc = "ec_point_proj_dbl_n (%s, n = %d) computes the Jacobian doubling formula applied %d time(s)" % ("a = -3 branch" if am3 else "general a", cnt, cnt)
            if store is None:
                rep.undecided("R-POLY", fn, inst, desc, ret)
                continue
            ref = (X, Y, Z)
            for _ in range(cnt):
                ref = _ref_double(ref[0], ref[1], ref[2], a)
            got = tuple(store.get(pt + k_, P.sym(pt + k_)) for k_ in ("->x", "->y", "->z"))
            why = _projectively_equal(got, ref)
            (rep.violated if why else rep.proved)("R-POLY", fn, inst, desc, why or "X, Y, Z agree projectively (%d, %d, %d terms)" % tuple(len(g.t) for g in got))
    # ---- addition
    for fname, mixed in (("ec_point_proj_add", False), ("ec_point_proj_add_mix", True)):
        fn = u.fn(fname)
        if fn is None or not fn.has_cfg or fn.relfile() != EC_H or not any(c.get("fn") == "bn_mod_square" for _, _, c, _ in fn.calls()):
            continue
        rep.functions.add(fn.name)
        pa, pb, cv = [p["n"] for p in fn.params[:3]]
        X1, Y1, Z1 = P.sym(pa + "->x"), P.sym(pa + "->y"), P.sym(pa + "->z")
        X2, Y2 = P.sym(pb + "->x"), P.sym(pb + "->y")
        Z2 = P.const(1) if mixed else P.sym(pb + "->z")
        store, ret = _trace(u, fn, {pa: 0x1000, pb: 0x2000, cv: 0x3000, cv + "->flags": 0, cv + "->m": 256, pb + "->infinity": 0, pa + "->infinity": 0},
                            {"bn_is_zero": 0, "ec_point_proj_is_at_infinity": 0, "ec_point_is_at_infinity": 0, "bn_is_one": 0, "bn_cmp": 1, "bn_is_odd": 0})
        n += 1
        inst = "formula:%s" % fname
        desc = "%s computes the Jacobian %saddition formula on its general path" % (fname, "mixed " if mixed else "")
        if store is None:
            rep.undecided("R-POLY", fn, inst, desc, ret)
            continue
        ref = _ref_add(X1, Y1, Z1, X2, Y2, Z2)
        got = tuple(store.get(pa + k_, P.sym(pa + k_)) for k_ in ("->x", "->y", "->z"))
        why = _projectively_equal(got, ref)
        (rep.violated if why else rep.proved)("R-POLY", fn, inst, desc, why or "X, Y, Z agree projectively (%d, %d, %d terms)" % tuple(len(g.t) for g in got))
    # ---- the doubling branch of the general addition (a == b)
    fn = u.fn("ec_point_proj_add")
    if fn is not None and fn.has_cfg and fn.relfile() == EC_H:
        pa, pb, cv = [p["n"] for p in fn.params[:3]]
        X, Y, Z = P.sym(pa + "->x"), P.sym(pa + "->y"), P.sym(pa + "->z")
        for am3 in (False, True):
            a = P.const(-3) if am3 else P.sym(cv + "->a")
            store, ret = _trace(u, fn, {pa: 0x1000, pb: 0x1000, cv: 0x3000, cv + "->flags": 0xffffffff if am3 else 0, cv + "->m": 256},
                                {"bn_is_zero": 0, "ec_point_proj_is_at_infinity": 0, "bn_is_one": 0, "bn_cmp": 1, "bn_is_odd": 0})
            n += 1
            inst = "formula:ec_point_proj_add:double:%s" % ("a=-3" if am3 else "general-a")
            desc = "ec_point_proj_add with both operands the same object computes the Jacobian doubling formula (%s)" % ("a = -3 branch" if am3 else "general a")
            if store is None:
                rep.undecided("R-POLY", fn, inst, desc, ret)
                continue
            got = tuple(store.get(pa + k_, P.sym(pa + k_)) for k_ in ("->x", "->y", "->z"))
            why = _projectively_equal(got, _ref_double(X, Y, Z, a))
            (rep.violated if why else rep.proved)("R-POLY", fn, inst, desc, why or "X, Y, Z agree projectively (%d, %d, %d terms)" % tuple(len(g.t) for g in got))
    return n
