"""C17 — INI store: structural clauses.

Decided:
  * R-BOUND   ini_buf_gen: every write (the memcpy and the two terminator stores) is dominated by a test that compares the
              running offset plus what is about to be written with buf_size, and the failing edge leaves the loop
              ("generation into a smaller buffer fails without writing past it").
  * R-AGREE   size calculation = bytes generated: per line ini_buf_calc_size adds data_size + C and ini_buf_gen advances its
              offset by data_size plus C single-byte stores, under the same skip condition (NULL line).
  * R-SIB     case-sensitive / case-insensitive lookups: ini_sect_find / ini_sect_val_find / ini_val_get use mem_cmpn, their
              ...i siblings use mem_cmpin, and each pair is otherwise the same program.
  * R-CONTRACT realloc_items (mem_utils.h): whenever it returns 0 without reallocating, *allocated > count; the grown size is
              > count (finite grid over every ordering of the compared quantities).
  * R-DOM     every store ini->lines[ini->lines_count] (and the memmove that opens a slot) in ini.c is dominated by a successful
              realloc_items(..., ini->lines_count) with no increment of lines_count in between.
  * R-OWN     a line object stored into ini->lines[] is not freed afterwards by the function that stored it.
  * R-REPOINT after realloc of a line record every interior pointer of the record (data, name, val) is re-derived from the new
              address before it is used.
Not decided: ordered-map behaviour over parse/set/get histories, text round trip equality.
"""
import itertools
from rules import driver, core, r_mpt, r_stride, r_path, r_range
from rules.core import key, walk, strip_casts, const_val
from props import common, fixtures

INI_C = "src/utils/ini.c"
TRUSTED = ["clang 14 front end + CFG builder", "tool/lcbfacts.cc", "rules/r_stride.py partial evaluator", "rules/core.py dominators", "python3"]


def specs():
    return [common.src_unit(INI_C), common.os_portable_unit()]


def need(u, name):
    fn = u.fn(name)
    if fn is None:
        raise driver.AnalysisBroken("anchor %s vanished" % name)
    return fn


# ------------------------------------------------------------------ R-BOUND on the generator

def gen_bound(rep, u, fname="ini_buf_gen", buf="buf", size="buf_size"):
    """each write through `buf` inside the loop is dominated by a guard whose condition mentions the running offset and the
    capacity, evaluated on a grid: the guard lets the write happen only if offset + pending <= capacity"""
    fn = need(u, fname)
    rep.functions.add(fname)
    pe = r_stride.PE(u)
    n = 0
    loops = fn.loops()
    writes = []
    for bid in fn.reachable_blocks():
        for i, e in enumerate(fn.blocks[bid].elems):
            for x, ps in walk(e):
                if x.get("k") == "call" and x.get("fn") in ("memcpy", "memmove") and buf in {r["n"] for r in core.refs(x["args"][0])}:
                    writes.append((bid, i, e, "memcpy", x))
                if x.get("k") == "bin" and x["op"] == "=" and strip_casts(x["x"]).get("k") == "sub" and \
                        core.is_ref(strip_casts(strip_casts(x["x"])["b"]), name=buf):
                    writes.append((bid, i, e, "store", x))
    desc_all = "writes of %s through %s are guarded by offset + pending bytes <= %s" % (fname, buf, size)
    if not writes:
        rep.violated("R-BOUND", fn, "writes", desc_all, "no write through %s found" % buf)
        return 0
    # the offset variable: the one added to buf in the memcpy destination
    offs = set()
    for bid, i, e, kind, x in writes:
        tgt = x["args"][0] if kind == "memcpy" else strip_casts(x["x"])["i"]
        for r in core.refs(tgt):
            if r["n"] != buf and r.get("dk") in ("local", "parm"):
                offs.add(r["n"])
    if len(offs) != 1:
        rep.undecided("R-BOUND", fn, "writes", desc_all, "offset variable not unique: %s" % sorted(offs))
        return 0
    off = offs.pop()
    # the loop that contains the writes and its guard
    head = None
    for h, body in loops.items():
        if all(w[0] in body for w in writes):
            head = h if head is None or len(body) < len(loops[head]) else head
    if head is None:
        rep.undecided("R-BOUND", fn, "writes", desc_all, "writes are not inside one loop")
        return 0
    body = loops[head]
    # per iteration the bytes written: data_size (memcpy length) + number of single stores
    mc = [w for w in writes if w[3] == "memcpy"]
    st = [w for w in writes if w[3] == "store"]
    if len(mc) != 1:
        rep.undecided("R-BOUND", fn, "writes", desc_all, "expected one memcpy per iteration")
        return 0
    lenk = key(strip_casts(mc[0][4]["args"][2]))
    pend = len(st)
    # grid: off, data_size, buf_size small; the line pointer non-NULL; follow the loop body from the head to the first write
    first = max(writes, key=lambda w: (w[0], -w[1]))        # CFG block ids descend along the flow
    first = mc[0]
    bad = None
    undec = None
    cases = 0
    linek = None
    for x, _ in walk(mc[0][4]["args"][1]):
        if x.get("k") == "sub":
            linek = key(x)
    for o, d, cap in itertools.product((0, 1, 5, 9), (0, 1, 4), (1, 2, 6, 7, 8, 11, 12, 20)):
        bind = {off: o, lenk: d, size: cap, "i": 0, "ini->lines_count": 3, buf: 0x30000, "ini": 0x1000}
        if linek:
            bind[linek] = 0x5000
        r, path = pe.reach_stmt(fn, head, body, bind, first[0], first[2])
        cases += 1
        fits = o + d + pend <= cap
        # the single-byte stores that follow: each is reached with the offset advanced by what was written before it
        st_sorted = sorted(st, key=lambda w: (-w[0], w[1]))
        st_reach = [pe.reach_stmt(fn, head, body, bind, w[0], w[2])[0] for w in st_sorted]
        if r == "unsure" or "unsure" in st_reach:
            undec = "a guard could not be evaluated with %s=%d %s=%d %s=%d" % (off, o, lenk, d, size, cap)
        elif r == "sure" and not fits:
            bad = bad or "with %s=%d, %s=%d and %s=%d the memcpy at line %s is reached: %d bytes are written at offset %d of a %d-byte buffer" % (
                off, o, lenk, d, size, cap, mc[0][2].get("ln"), d + pend, o, cap)
        elif any(sr == "sure" and o + (d if r == "sure" else 0) + k + 1 > cap for k, sr in enumerate(st_reach)):
            k = next(k for k, sr in enumerate(st_reach) if sr == "sure" and o + (d if r == "sure" else 0) + k + 1 > cap)
            bad = bad or "with %s=%d, %s=%d and %s=%d the store at line %s is reached without a room check: byte %d of a %d-byte buffer is written" % (
                off, o, lenk, d, size, cap, st_sorted[k][2].get("ln"), o + (d if r == "sure" else 0) + k, cap)
        elif r == "no" and fits and all(sr == "no" for sr in st_reach):
            # refusing although it fits: not a memory-safety violation, but the generator then fails on an exact-size buffer
            if bad is None and o == 0 and cap == d + pend:
                bad = "an exactly fitting buffer (%d bytes) is refused" % cap
    # the terminator stores follow the memcpy without another guard: they are covered by `pend` in the guard above
    n += 1
    if bad:
        rep.violated("R-BOUND", fn, "writes", desc_all, bad, mc[0][2].get("ln"))
    elif undec:
        rep.undecided("R-BOUND", fn, "writes", desc_all, undec)
    else:
        rep.proved("R-BOUND", fn, "writes", desc_all, "%d grid points over (%s, %s, %s); %d bytes + %d terminators per line" % (cases, off, lenk, size, 1, pend))
    return n


# ------------------------------------------------------------------ R-CAP: capacity field vs allocation size

def _lin(fn, e, depth=0):
    """linear form {atom: coeff, '': const} of an integer expression; locals with exactly one definition are expanded"""
    e = strip_casts(e)
    if e is None:
        return None
    cv = const_val(e)
    if cv is not None:
        return {"": cv}
    k = e.get("k")
    if k == "sizeof" and "cv" in e:
        return {"": int(e["cv"])}
    if k == "lazy":
        return None
    if k == "ref" and e.get("dk") == "local" and depth < 3:
        defs = [x["y"] for _p, _r, x, _ps in fn.nodes() if x.get("k") == "bin" and x["op"] == "=" and core.is_ref(strip_casts(x["x"]), id=e.get("id"))]
        for _p, _r, x, _ps in fn.nodes():
            if x.get("k") == "decl":
                defs += [v["init"] for v in x.get("vars", []) if v.get("id") == e.get("id") and v.get("init") is not None]
        if len(defs) == 1:
            r = _lin(fn, defs[0], depth + 1)
            if r is not None:
                return r
        return {key(e): 1}
    if k in ("ref", "mem"):
        return {key(e): 1}
    if k == "bin" and e["op"] in ("+", "-"):
        a, b = _lin(fn, e["x"], depth), _lin(fn, e["y"], depth)
        if a is None or b is None:
            return None
        r = dict(a)
        for kk, v in b.items():
            r[kk] = r.get(kk, 0) + (v if e["op"] == "+" else -v)
        return {kk: v for kk, v in r.items() if v or kk == ""}
    if k == "bin" and e["op"] == "*":
        a, b = _lin(fn, e["x"], depth), _lin(fn, e["y"], depth)
        for p_, q_ in ((a, b), (b, a)):
            if p_ is not None and q_ is not None and set(q_) <= {""}:
                return {kk: v * q_.get("", 0) for kk, v in p_.items()}
    return None


def capacity_field_rule(rep, u, field="data_allocated_size", hdr_rec="ini_line_s"):
    """every store to the capacity field of a line record is (allocation size of the record) - sizeof(header): the data
    area begins right behind the header, and the 'fits without realloc' test compares this field with the new data size"""
    hdr = (u.records.get(hdr_rec) or {}).get("size")
    if not hdr:
        raise driver.AnalysisBroken("record %s not found" % hdr_rec)
    n = 0
    for fn in u.function_list:
        if fn.relfile() != INI_C or not fn.has_cfg:
            continue
        for pos, root, x, ps in fn.nodes():
            if not (x.get("k") == "bin" and x["op"] == "=" and strip_casts(x["x"]).get("k") == "mem" and strip_casts(x["x"])["f"] == field):
                continue
            obj = strip_casts(strip_casts(x["x"])["b"])
            n += 1
            rep.functions.add(fn.name)
            inst = "capacity:%s@%s" % (field, fn.name)
            desc = "%s: the capacity stored in %s is the size handed to the allocator minus the %d-byte header" % (fn.name, key(x["x"]), hdr)
            # the allocation of this object that dominates the store
            alloc = None
            for p2, r2, c, ps2 in fn.calls({"calloc", "malloc", "realloc", "reallocarray"}):
                if not fn.pos_dominates(p2, pos):
                    continue
                tgt = [l for l, r in core.assigned_lhs(r2) if any(y is c for y, _ in walk(r))]
                if tgt and key(strip_casts(tgt[0])) == key(obj):
                    alloc = c
            if alloc is None:
                rep.undecided("R-CAP", fn, inst, desc, "no dominating allocation of %s found" % key(obj), x.get("ln"))
                continue
            size_e = {"calloc": None, "malloc": alloc["args"][0], "realloc": alloc["args"][-1]}.get(alloc["fn"])
            if alloc["fn"] == "calloc":
                a0, a1 = _lin(fn, alloc["args"][0]), _lin(fn, alloc["args"][1])
                S = None
                if a0 is not None and set(a0) <= {""} and a1 is not None:
                    S = {kk: v * a0.get("", 0) for kk, v in a1.items()}
            else:
                S = _lin(fn, size_e) if size_e is not None else None
            V = _lin(fn, x["y"])
            if S is None or V is None:
                rep.undecided("R-CAP", fn, inst, desc, "size expressions not linear", x.get("ln"))
                continue
            d = dict(S)
            for kk, v in V.items():
                d[kk] = d.get(kk, 0) - v
            d = {kk: v for kk, v in d.items() if v}
            if d == {"": hdr}:
                rep.proved("R-CAP", fn, inst, desc, "%s(...) size minus stored capacity = %d" % (alloc["fn"], hdr), x.get("ln"))
            else:
                rep.violated("R-CAP", fn, inst, desc, "allocation size minus stored capacity is %s instead of %d: the capacity is %s, the next "
                             "'fits in place' test lets a longer value be copied past the block" % (
                                 " + ".join("%s*%s" % (v, kk) if kk else str(v) for kk, v in sorted(d.items())) or "0", hdr,
                                 "over-stated" if d.get("", 0) < hdr and set(d) <= {""} else "inconsistent"), x.get("ln"))
    return n


def bracket_rule(rep, u):
    """ini_val_set writes a new section header as '[' + name + ']' with the name copied verbatim (a name may contain ']').
    The parser must therefore take everything up to the *last* ']' of the line: its bracket search runs backwards - unless
    the writer refuses names that contain the delimiter."""
    fp, fw = need(u, "ini_buf_parse"), need(u, "ini_val_set")
    rep.functions.update([fp.name, fw.name])
    REV = {"mem_rchr", "mem_rchr_ptr", "mem_rchr_off", "memrchr"}
    FWD = {"mem_chr", "mem_chr_ptr", "mem_chr_off", "memchr"}
    writer_refuses = any(const_val(a) == 0x5d for _p, _r, c, _ps in fw.calls(REV | FWD) for a in c["args"])
    sites = [(c, c.get("fn")) for _p, _r, c, _ps in fp.calls(REV | FWD) if any(const_val(a) == 0x5d for a in c["args"])]
    desc = "ini_buf_parse delimits a section name by the last ']' of the line (the writer copies names verbatim)"
    if not sites:
        rep.violated("R-AGREE", fp, "section-bracket", desc, "no search for ']' found")
    elif all(f in REV for c, f in sites) or writer_refuses:
        rep.proved("R-AGREE", fp, "section-bracket", desc, "%s" % sorted({f for c, f in sites}))
    else:
        c, f = [x for x in sites if x[1] not in REV][0]
        rep.violated("R-AGREE", fp, "section-bracket", desc, "%s at line %s stops at the first ']': a section written as [a]b] is read back as 'a' and no "
                     "longer found under its name" % (f, c.get("ln")), c.get("ln"))
    return 1


# ------------------------------------------------------------------ R-PROGRESS cursor enumerators

def enum_progress(rep, u, fname="ini_sect_enum", cursor="sect_off", kind_field="type", kind_const="INI_LINE_TYPE_SECTION", extra=None):
    """The enumerators are driven as `while (0 == enum(ini, &off, ...)) { ...; off++; }` (ini_sect_find, ini_sect_val_find and
    every external user).  That loop ends iff, for every start offset s in [0, lines_count] (s = lines_count is what the caller
    holds after stepping past a hit on the last line), a successful call leaves s <= *off < lines_count.  The function is
    evaluated for every store of up to 3 lines whose kinds are all the enumerated one (the densest case) and every s."""
    fn = need(u, fname)
    rep.functions.add(fname)
    rec = u.records.get("ini_line_s")
    if rec is None:
        raise driver.AnalysisBroken("record ini_line_s not found")
    foff = {f["n"]: f["off"] // 8 for f in rec["fields"]}
    kv = None
    for _p, _r, x, _ps in fn.nodes():
        if kind_const in (x.get("m") or []) and "cv" in x:
            kv = int(x["cv"])
    if kv is None:
        raise driver.AnalysisBroken("enumerator %s has no constant value in the facts" % kind_const)
    INI, LINES, OFFP, REC0 = 0x1000, 0x2000, 0x3000, 0x10000
    desc = "%s: a successful call never moves the caller's cursor backwards and an exhausted cursor ends the enumeration" % fname
    bad = undec = None
    cases = 0
    for n in (1, 2, 3):
        for s in range(0, n + 1):
            pe = r_stride.PE(u)
            for i in range(n):
                pe.memory[LINES + 8 * i] = REC0 + 0x100 * i
                pe.memory[REC0 + 0x100 * i + foff[kind_field]] = kv
                pe.memory[REC0 + 0x100 * i + foff["name"]] = 0x5000
                pe.memory[REC0 + 0x100 * i + foff["name_size"]] = 1
            bind = {"ini": INI, "ini->lines": LINES, "ini->lines_count": n, cursor: OFFP, "*(%s)" % cursor: s}
            bind.update(extra or {})
            for p in fn.params:
                if p["n"] not in bind:
                    bind[p["n"]] = 0
            ev, ret = pe.trace(fn, bind)
            cases += 1
            if isinstance(ret, str):
                undec = undec or "lines_count=%d start=%d: %s" % (n, s, ret)
                continue
            final = ev[-1][1].get("*(%s)" % cursor) if ev else None
            if ret == 0:
                if final is None:
                    undec = undec or "cursor after the call not evaluable"
                elif not (s <= final < n):
                    bad = bad or "with %d lines and start offset %d the call succeeds with *%s = %s: the caller's `off++` loop visits the " \
                        "same entries again and never ends" % (n, s, cursor, final)
            elif s == n and ret is None:
                undec = undec or "status not constant"
    if bad:
        rep.violated("R-PROGRESS", fn, "cursor-monotone", desc, bad)
    elif undec:
        rep.undecided("R-PROGRESS", fn, "cursor-monotone", desc, undec)
    else:
        rep.proved("R-PROGRESS", fn, "cursor-monotone", desc, "%d (store size, start offset) cases, all lines of the enumerated kind" % cases)
    return 1


# ------------------------------------------------------------------ R-AGREE calc vs gen

def calc_gen_agree(rep, u):
    calc, gen = need(u, "ini_buf_calc_size"), need(u, "ini_buf_gen")
    rep.functions.update([calc.name, gen.name])

    def per_line(fn):
        """(variable, symbolic increment) accumulated per loop iteration: {'data': n, 'const': c}"""
        inc = {"data": 0, "const": 0}
        skip = []
        var = None
        for h, body in fn.loops().items():
            for b in sorted(body):
                blk = fn.blocks[b]
                if blk.cond is not None and "lines[" in key(blk.cond) and "->" not in key(blk.cond).split("lines[")[-1]:
                    skip.append(key(blk.cond))
                for e in blk.elems:
                    for x, _ in walk(e):
                        if x.get("k") == "bin" and x["op"] == "+=":
                            var = key(strip_casts(x["x"]))
                            ks = key(x["y"])
                            inc["data"] += ks.count("data_size")
                            for y, _p in walk(x["y"]):
                                if y.get("k") == "int":
                                    inc["const"] += int(y["v"])
                        if x.get("k") == "un" and x["op"] in ("post++", "pre++") and fn.name == "ini_buf_gen":
                            v = key(strip_casts(x["e"]))
                            if v != "i":
                                inc["const"] += 1
        return inc, skip
    ci, cs = per_line(calc)
    gi, gs = per_line(gen)
    # both sums start from zero: the accumulator is given 0 in the function before the loop (a size added into whatever the
    # caller's variable held is not the size of the text)
    for f_ in (calc, gen):
        accs = set()
        for h, body in f_.loops().items():
            for b in body:
                for e in f_.blocks[b].elems:
                    for x, _ in walk(e):
                        if x.get("k") == "bin" and x["op"] == "+=":
                            accs.add(key(strip_casts(x["x"])))
        for a in sorted(accs):
            zero = any(x.get("k") == "bin" and x["op"] == "=" and key(strip_casts(x["x"])) == a and const_val(x["y"]) == 0
                       for _p, _r, x, _ps in f_.nodes())
            zero = zero or any(v.get("n") == a and v.get("init") is not None and const_val(v["init"]) == 0
                               for _p, _r, x, _ps in f_.nodes() if x.get("k") == "decl" for v in x.get("vars", []))
            (rep.proved if zero else rep.violated)("R-AGREE", f_, "sum-from-zero:%s" % a, "%s: the running total '%s' starts at 0" % (f_.name, a),
                                                   "" if zero else "no assignment of 0 in the function: the result includes whatever the caller's variable held")
    desc = "ini_buf_calc_size adds per line exactly what ini_buf_gen writes per line, under the same skip condition"
    ok = ci == gi and ci["data"] == 1 and bool(cs) and set(cs) == set(gs)
    (rep.proved if ok else rep.violated)("R-AGREE", calc, "calc-vs-gen", desc, "calc adds %s (skip %s), gen writes %s (skip %s)" % (ci, cs, gi, gs))
    return 1


# ------------------------------------------------------------------ R-SIB case pairs

PAIRS = [("ini_sect_find", "ini_sect_findi"), ("ini_sect_val_find", "ini_sect_val_findi"), ("ini_val_get", "ini_vali_get"),
         ("ini_val_get_int", "ini_vali_get_int"), ("ini_val_get_uint", "ini_vali_get_uint")]
CMP_S, CMP_I = {"mem_cmpn", "mem_cmp", "memcmp"}, {"mem_cmpin", "mem_cmpi", "strncasecmp"}


SELECTOR_HELPERS = {"ini_val_find__int": 1}


def selector_helper_rule(rep, u):
    """a helper shared by the two lookup flavours picks the comparator and the value finder by its case flag: in every
    `flag ? X : Y` the insensitive variant is on the flag-set arm"""
    n = 0
    for hname, idx in SELECTOR_HELPERS.items():
        fn = u.fn(hname)
        if fn is None:
            continue                   # the lookups do not share a helper (older layout): nothing to check
        rep.functions.add(hname)
        flag = fn.params[idx]["n"]
        insens = CMP_I | {b for a, b in PAIRS}
        sens = CMP_S | {a for a, b in PAIRS}
        for pos, root, x, ps in fn.nodes():
            y = x.get("lz") if x.get("k") == "lazy" and x.get("lz") is not None else x
            if y.get("k") != "cond" or not any(core.is_ref(z, name=flag) for z, _ in walk(y["c"])):
                continue
            n += 1
            try:
                v1 = r_mpt.eval_expr(y["c"], {id(z): 1 for z, _ in walk(y["c"]) if core.is_ref(z, name=flag)})
            except r_mpt.Unknown:
                rep.undecided("R-SIB", fn, "case-selector#%d" % n, "the case flag selects the matching variant", "condition not evaluable", y.get("ln"))
                continue
            arm_set, arm_clear = (y["x"], y["y"]) if v1 else (y["y"], y["x"])
            cs = {z.get("fn") for z, _ in walk(arm_set) if z.get("k") == "call"}
            cc = {z.get("fn") for z, _ in walk(arm_clear) if z.get("k") == "call"}
            ok = bool(cs & insens) and not (cs & sens) and bool(cc & sens) and not (cc & insens)
            (rep.proved if ok else rep.violated)("R-SIB", fn, "case-selector#%d" % n, "%s: the case flag selects the matching variant" % hname,
                                                 "set -> %s, clear -> %s" % (sorted(x_ for x_ in cs if x_), sorted(x_ for x_ in cc if x_)), y.get("ln"))
    return n


def case_siblings(rep, u):
    n = 0
    names = {a for p in PAIRS for a in p}
    ren = {}
    for a, b in PAIRS:
        ren[b] = a

    def norm(fn):
        def sub(s):
            for nm in sorted(names, key=len, reverse=True):
                s = s.replace(nm + "(", ren.get(nm, nm) + "(")
            for c in CMP_I | CMP_S:
                s = s.replace(c + "(", "CMP(")
            # a shared helper selected by a case flag: the flag constant is the comparator choice (checked separately)
            import re
            for hname in SELECTOR_HELPERS:
                s = re.sub(re.escape(hname) + r"\((\w+),[01],", hname + r"(\1,CASE,", s)
            return s
        return core.alpha_keys(fn, sub)
    for a, b in PAIRS:
        fa, fb = need(u, a), need(u, b)
        rep.functions.update([a, b])
        ca = {c.get("fn") for _, _, c, _ in fa.calls()}
        cb = {c.get("fn") for _, _, c, _ in fb.calls()}
        n += 1
        desc = "%s compares case-sensitively, %s case-insensitively, and they are otherwise the same program" % (a, b)
        bad = []
        if ca & CMP_I:
            bad.append("%s calls %s" % (a, sorted(ca & CMP_I)))
        if cb & CMP_S:
            bad.append("%s calls %s" % (b, sorted(cb & CMP_S)))
        # callees of the pair must be the matching variants
        for callee_s, callee_i in PAIRS:
            if callee_i in ca:
                bad.append("%s calls the case-insensitive %s" % (a, callee_i))
            if callee_s in cb:
                bad.append("%s calls the case-sensitive %s" % (b, callee_s))
        for hname, idx in SELECTOR_HELPERS.items():
            for f_, want_ in ((fa, 0), (fb, 1)):
                for _p, _r, c_, _ps in f_.calls({hname}):
                    if const_val(c_["args"][idx]) != want_:
                        bad.append("%s passes case flag %s to %s" % (f_.name, key(c_["args"][idx]), hname))
        if norm(fa) != norm(fb):
            na, nb = norm(fa), norm(fb)
            d = next((i for i in range(min(len(na), len(nb))) if na[i] != nb[i]), min(len(na), len(nb)))
            bad.append("bodies differ at statement %d: %s vs %s" % (d, na[d] if d < len(na) else "<end>", nb[d] if d < len(nb) else "<end>"))
        (rep.violated if bad else rep.proved)("R-SIB", fa, "case-pair", desc, "; ".join(bad) if bad else "same program up to the comparator")
    return n


# ------------------------------------------------------------------ R-CONTRACT realloc_items

def realloc_contract(rep, u):
    fn = need(u, "realloc_items")
    rep.functions.add(fn.name)
    pe = r_stride.PE(u, call_default={"reallocarray": 0x900000})
    bad = None
    undec = None
    cases = 0
    for count, prev, blk, have in itertools.product(range(0, 8), range(0, 14), (1, 2, 3, 4), (0, 1)):
        bind = {"items": 0x7000, "allocated": 0x7100, "*(items)": 0x800000 if have else 0, "*(allocated)": prev, "item_size": 8,
                "alloc_blk_cnt": blk, "count": count}
        ev, ret = pe.trace(fn, bind)
        cases += 1
        if isinstance(ret, str):
            undec = ret
            continue
        if ret != 0:
            bad = bad or "returns %s with count=%d allocated=%d block=%d" % (ret, count, prev, blk)
            continue
        final = prev
        for e, b in ev:
            for x, _ in walk(e):
                if x.get("k") == "bin" and x["op"] == "=" and key(strip_casts(x["x"])) == "*(allocated)":
                    try:
                        final = r_mpt.eval_expr(x["y"], {}, pe._hook(b, {}))
                    except r_mpt.Unknown:
                        final = None
        if final is None:
            undec = "stored size not evaluable"
        elif not final > count:
            bad = bad or "success with count=%d leaves *allocated=%d (previous %d, block %d, items %s): slot [count] does not exist" % (
                count, final, prev, blk, "present" if have else "NULL")
        elif not have and not any(x.get("k") == "call" and x.get("fn") == "reallocarray" for e, b in ev for x, _ in walk(e)):
            bad = bad or "reports success without allocating although *items is NULL (count=%d allocated=%d)" % (count, prev)
    desc = "realloc_items returning 0 guarantees *allocated > count (the caller stores at index count)"
    if bad:
        rep.violated("R-CONTRACT", fn, "allocated>count", desc, bad)
    elif undec:
        rep.undecided("R-CONTRACT", fn, "allocated>count", desc, undec)
    else:
        rep.proved("R-CONTRACT", fn, "allocated>count", desc, "%d grid points (count 0..7 x allocated 0..13 x block 1..4 x items NULL/present): "
                   "every ordering of allocated vs count and count+block" % cases)
    return 1


def reallocarray_contract(rep, u, fname=None):
    """the replacement reallocarray() of al/os.h (platforms without one): for boundary values of (nmemb, size) it fails
    without calling realloc exactly when nmemb * size does not fit size_t, and otherwise asks realloc for the exact product
    (1 for an empty request).  realloc_items hands it count + block and the item size."""
    fname = fname or common.OS_PORTABLE_PREFIX + "reallocarray"
    fn = need(u, fname)
    rep.functions.add(fn.name)
    W = 1 << 64
    vals = [0, 1, 2, 3, 8, 1 << 16, 1 << 31, (1 << 32) - 1, 1 << 32, (1 << 32) + 1, 1 << 33, 1 << 62, 1 << 63, (1 << 63) + 1, W - 1, W // 3 + 1]
    bad = undec = None
    n = 0
    for nm, sz in itertools.product(vals, vals):
        pe = r_stride.PE(u, call_default={"realloc": 0x9000})
        pe.wrap = True
        ev, ret = pe.trace(fn, {fn.params[0]["n"]: 0x100, fn.params[1]["n"]: nm, fn.params[2]["n"]: sz})
        n += 1
        if isinstance(ret, str):
            undec = undec or "nmemb=%#x size=%#x: %s" % (nm, sz, ret)
            continue
        asked = None
        for e, b in ev:
            for x, _ in walk(e):
                if x.get("k") == "call" and x.get("fn") == "realloc":
                    vs = pe.evals(x["args"][1], b, 0)
                    asked = vs[0][0] if len(vs) == 1 else "?"
        exact = nm * sz
        if exact >= W:
            if asked is not None or ret != 0:
                bad = bad or "nmemb=%#x size=%#x overflow size_t, yet realloc is asked for %s bytes: the caller then stores %#x items into it" % (nm, sz, asked, nm)
        else:
            if asked is None:
                bad = bad or "nmemb=%#x size=%#x (product %#x fits) is refused" % (nm, sz, exact)
            elif asked != max(exact, 1):
                bad = bad or "nmemb=%#x size=%#x: realloc is asked for %s bytes instead of %#x" % (nm, sz, asked, exact)
    desc = "the replacement reallocarray refuses exactly the products that overflow size_t and otherwise allocates the exact product"
    if bad:
        rep.violated("R-CONTRACT", fn, "reallocarray-overflow", desc, bad)
    elif undec:
        rep.undecided("R-CONTRACT", fn, "reallocarray-overflow", desc, undec)
    else:
        rep.proved("R-CONTRACT", fn, "reallocarray-overflow", desc, "%d boundary pairs, unsigned arithmetic modulo 2^64" % n)
    return n


# ------------------------------------------------------------------ R-DOM stores at lines[lines_count]

def slot_dominance(rep, u):
    n = 0
    for fname in ("ini_buf_parse", "ini_val_set"):
        fn = need(u, fname)
        rep.functions.add(fname)
        # successful realloc_items calls: block where the status test's zero edge continues
        calls = []
        for pos, root, c, ps in fn.calls({"realloc_items"}):
            if key(strip_casts(c["args"][-1])) == "ini->lines_count":
                calls.append((pos, c))
        per = 0
        for bid in sorted(fn.reachable_blocks(), reverse=True):
            for i, e in enumerate(fn.blocks[bid].elems):
                sites = []
                for x, ps in walk(e):
                    if x.get("k") == "bin" and x["op"] == "=" and strip_casts(x["x"]).get("k") == "sub":
                        sx = strip_casts(x["x"])
                        if key(strip_casts(sx["b"])) == "ini->lines" and key(strip_casts(sx["i"])) == "ini->lines_count":
                            sites.append(("store", x))
                    if x.get("k") == "call" and x.get("fn") == "memmove" and "ini->lines" in key(x["args"][0]):
                        sites.append(("memmove", x))
                for kind, x in sites:
                    per += 1
                    n += 1
                    inst = "%s#%d" % (kind, per)
                    desc = "the %s into ini->lines at line %s happens only after realloc_items made room for index lines_count" % (kind, x.get("ln"))
                    ok = None
                    for (cpos, c) in calls:
                        # the call's block (or the status test after it) must dominate the site, failure must leave, and
                        # lines_count must not be written between
                        if not fn.pos_dominates(cpos, (bid, i)):
                            continue
                        wr = _count_written_between(fn, cpos, (bid, i))
                        if wr:
                            ok = ok or ("lines_count is incremented at line %s between the reservation and the store" % wr)
                            continue
                        ok = True
                        break
                    if ok is True:
                        rep.proved("R-DOM", fn, inst, desc, "dominated by realloc_items(..., ini->lines_count) at line %s" % c.get("ln"), x.get("ln"))
                    else:
                        rep.violated("R-DOM", fn, inst, desc, ok or "no dominating realloc_items(..., ini->lines_count) call", x.get("ln"))
        # a failing reservation leaves
        for (cpos, c) in calls:
            n += 1
            _fail_leaves(rep, fn, cpos, c)
    return n


def _count_written_between(fn, a, b):
    """line of a write to ini->lines_count on some path a -> b (excluding b itself)"""
    ra = fn.reach_from([a[0]])
    for bid in ra:
        # blocks that can still reach b
        if b[0] not in fn.reach_from([bid]) and bid != b[0]:
            continue
        for i, e in enumerate(fn.blocks[bid].elems):
            if bid == a[0] and i <= a[1]:
                continue
            if bid == b[0] and i >= b[1]:
                continue
            if bid == b[0] and bid == a[0] and not (a[1] < i < b[1]):
                continue
            for x, _ in walk(e):
                t = None
                if x.get("k") == "un" and ("++" in x["op"] or "--" in x["op"]):
                    t = strip_casts(x["e"])
                elif x.get("k") == "bin" and x["op"].endswith("=") and x["op"] not in ("==", "!=", "<=", ">="):
                    t = strip_casts(x["x"])
                if t is not None and key(t) == "ini->lines_count":
                    # only counts if this block lies strictly between on an acyclic path: it must be dominated by a and not be b's successor only
                    if fn.pos_dominates(a, (bid, i)) and (bid, i) != b:
                        # and b reachable from here
                        if b[0] in fn.reach_from([bid]) or bid == b[0]:
                            if bid == b[0] and i > b[1]:
                                continue
                            return x.get("ln")
    return None


def _fail_leaves(rep, fn, cpos, call):
    pe = r_stride.PE(fn.unit)
    body = set(fn.reachable_blocks())
    desc = "a failing realloc_items at line %s leaves the function" % call.get("ln")
    inst = "reserve-fail@%s" % _ord(fn, call)
    # with a non-zero status no store into ini->lines may be reached
    worst = "no"
    for bid in fn.reachable_blocks():
        for i, e in enumerate(fn.blocks[bid].elems):
            if any(x.get("k") == "bin" and x["op"] == "=" and strip_casts(x["x"]).get("k") == "sub" and
                   key(strip_casts(strip_casts(x["x"])["b"])) == "ini->lines" for x, _ in walk(e)):
                if not fn.pos_dominates(cpos, (bid, i)):
                    continue
                r, path = pe.reach_stmt(fn, cpos[0], body, {key(call): 12}, bid, e)
                if r == "sure":
                    return rep.violated("R-DOM", fn, inst, desc, "with status 12 the store at line %s is still reached" % e.get("ln"), call.get("ln"))
                if r == "unsure":
                    worst = "unsure"
    if worst == "unsure":
        return rep.undecided("R-DOM", fn, inst, desc, "status test not evaluable")
    return rep.proved("R-DOM", fn, inst, desc, "no store into ini->lines is reachable with a non-zero status", call.get("ln"))


def _ord(fn, call):
    i = 0
    for pos, root, c, ps in fn.calls({call["fn"]}):
        i += 1
        if c is call:
            return i
    return 0


# ------------------------------------------------------------------ R-OWN free after store

def own_rule(rep, u):
    n = 0
    for fname in ("ini_buf_parse", "ini_val_set"):
        fn = need(u, fname)
        stores = []
        for pos, root, x, ps in fn.nodes():
            if x.get("k") == "bin" and x["op"] == "=" and strip_casts(x["x"]).get("k") == "sub" and \
                    key(strip_casts(strip_casts(x["x"])["b"])) == "ini->lines" and strip_casts(x["y"]).get("k") == "ref":
                stores.append((pos, strip_casts(x["y"])["n"], x))
        per = 0
        for pos, root, c, ps in fn.calls({"free"}):
            a = strip_casts(c["args"][0])
            if a.get("k") != "ref":
                continue
            per += 1
            n += 1
            inst = "free(%s)#%d" % (a["n"], per)
            desc = "free(%s) at line %s does not release a line that is already stored in ini->lines[]" % (a["n"], c.get("ln"))
            hit = None
            for spos, var, sx in stores:
                if var != a["n"]:
                    continue
                # some path from the store to the free leaves the variable untouched
                if _reaches_unkilled(fn, spos, pos, strip_casts(sx["y"])["id"]):
                    hit = sx
                    break
            if hit is not None:
                rep.violated("R-OWN", fn, inst, desc, "the same pointer was stored at line %s and is still in the array: it will be freed again "
                             "by ini_destroy (double free) and is dangling meanwhile" % hit.get("ln"), c.get("ln"))
            else:
                rep.proved("R-OWN", fn, inst, desc, "no store of %s into ini->lines[] reaches this free" % a["n"], c.get("ln"))
    return n


def _reaches_unkilled(fn, a, b, vid):
    """is there a path from just after position a to position b on which variable vid is not directly assigned?"""
    from rules.r_range import direct_writes_of
    seen = set()
    work = [(a[0], a[1] + 1)]
    while work:
        bid, i = work.pop()
        if (bid, i) in seen:
            continue
        seen.add((bid, i))
        elems = fn.blocks[bid].elems
        killed = False
        j = i
        while j < len(elems):
            if (bid, j) == b:
                return True
            if vid in direct_writes_of(elems[j]):
                killed = True
                break
            j += 1
        if killed:
            continue
        for s_ in fn.blocks[bid].rsucc():
            work.append((s_, 0))
    return False


# ------------------------------------------------------------------ R-REPOINT after realloc of a record

def repoint_rule(rep, u):
    fn = need(u, "ini_val_set")
    n = 0
    for pos, root, x, ps in fn.nodes():
        if x.get("k") == "bin" and x["op"] == "=" and strip_casts(x["y"]).get("k") == "call" and strip_casts(x["y"]).get("fn") == "realloc":
            var = key(strip_casts(x["x"]))
            # pointer fields of the record type
            t = fn.unit.type(strip_casts(x["x"])["t"])
            rec = fn.unit.type(t["to"]) if t.get("to") is not None else None
            fields = []
            rc = None
            for r in fn.unit.records.values():
                if rec is not None and ("struct " + r["n"]) in (rec.get("c") or ""):
                    rc = r
            for f in (rc or {}).get("fields", []):
                if fn.unit.type(f["t"])["k"] == "ptr":
                    fields.append(f["n"])
            n += 1
            desc = "after realloc of the line record every interior pointer (%s) is re-derived before use" % ", ".join(fields)
            if not fields:
                rep.undecided("R-REPOINT", fn, "realloc", desc, "record layout not found")
                continue
            # on the moved path (pointer differs) each field must be assigned before the function's final memcpy through it
            missing = []
            for f in fields:
                assigned = [p for p, r_, y, _ in fn.nodes() if y.get("k") == "bin" and y["op"] == "=" and key(strip_casts(y["x"])) == "%s->%s" % (var, f)
                            and fn.pos_dominates(pos, p)]
                if not assigned:
                    missing.append(f)
            (rep.violated if missing else rep.proved)("R-REPOINT", fn, "realloc", desc,
                                                      ("not re-derived after the move: %s" % missing) if missing else "all re-assigned on the moved path", x.get("ln"))
    return n


def run(rep, tier):
    us = driver.load_units(specs())
    rep.use_units(us)
    u = us[INI_C]
    n = gen_bound(rep, u)
    n += calc_gen_agree(rep, u)
    ns = case_siblings(rep, u)
    rep.floor("case-sensitive / -insensitive pairs", ns, 5)
    rep.floor("comparator selections in the shared lookup helper", selector_helper_rule(rep, u), 2)
    n += realloc_contract(rep, u)
    rep.floor("reallocarray boundary pairs", reallocarray_contract(rep, us[common.OS_PORTABLE]), 256)
    nd = slot_dominance(rep, u)
    rep.floor("slot stores and reservations", nd, 6)
    no = own_rule(rep, u)
    rep.floor("free() sites", no, 2)
    n += repoint_rule(rep, u)
    rep.floor("single obligations", n, 4)
    rep.floor("capacity field stores", capacity_field_rule(rep, u), 2)
    bracket_rule(rep, u)
    enum_progress(rep, u)
    enum_progress(rep, u, "ini_sect_val_enum", "val_off", "type", "INI_LINE_TYPE_VALUE", {"sect_off": 0})
    from props import c17_audit
    rep.floor("record finders", c17_audit.last_match_rule(rep, u), 4)
    rep.floor("value copies in ini_val_set", c17_audit.null_value_rule(rep, u), 1)
    c17_audit.gen_empty_rule(rep, u)
    rep.floor("pair lookups", c17_audit.all_sections_rule(rep, u), 3)
    rep.floor("overwrites of the hit inside the section walk", c17_audit.keep_found_rule(rep, u), 1)
    rep.floor("name finders", c17_audit.empty_name_rule(rep, u), 4)
    rep.floor("refusal classes of ini_val_set", c17_audit.representable_rule(rep, u), 4)
    rep.floor("counted-string helpers in mem_utils.h", c17_audit.byte_string_rule(rep, u), 8)
    rep.floor("copies of the caller's value", c17_audit.value_overlap_rule(rep, u), 1)
    from props import c12_audit
    rep.floor("record growth obligations", c12_audit.record_realloc_rule(rep, u), 2)
    return driver.finish(
        rep, "other",
        "INI store, structural clauses: generator writes guarded by offset+pending <= capacity (grid evaluation of the guard), size "
        "calculator and generator add the same per line, case-sensitive/-insensitive lookup pairs use the right comparator and are "
        "otherwise identical, realloc_items' success contract, every slot store dominated by a successful reservation for the "
        "current count, no free of a stored line, interior pointers re-derived after realloc.  NOT decided: ordered-map semantics "
        "over operation histories and text round-trip equality.",
        ["reallocarray/realloc/free as specified by C", "ini->lines[] has *lines_allocated slots (maintained only by realloc_items)"], TRUSTED)


def selftest():
    u = fixtures.load("ini_rules.c")
    rep = driver.Report("fixture", "quick")
    gen_bound(rep, u, "fx_gen_bad")
    gen_bound(rep, u, "fx_gen_ok")
    fixtures.expect(rep, ["fx_gen_bad"], ["fx_gen_ok"], "R-BOUND(gen)")
