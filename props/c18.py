"""C18 — socket-address text and prefix arithmetic: structural clauses.

The round trip "format, parse back, same address" and the RFC 5952 text itself are produced by libc (inet_ntop /
inet_pton) and quantify over address values: not decided.  What is decided is what the library's own code adds around
libc, for every output buffer size and every family:

  * R-LAYOUT (text)  sa_addr_port_to_str, evaluated over family x buffer size x callee outcome x port classes: the
                     capacity handed to each callee lies inside the caller's buffer (no unsigned wrap), the pieces
                     '[' address ']' ':' port follow each other without gap or overlap (a bracket never lands on an
                     address character), every store is inside the buffer and the reported size is the end of the text
  * R-CURSOR         relational abstract interpretation of every function of socket_address.c and net/utils.c
                     (as C12/C13; undecided accesses are listed, not claimed)
  * R-TBL            pref_to_mask[i] is the network-order image of the i leading one bits (i = 0..32)
  * R-SPEC (masks)   inet_len2mask / inet6_len2mask evaluated for every prefix length: every word of the mask is written
                     exactly once with the arithmetic mask's value, out-of-range lengths are refused; inet_mask2len /
                     inet6_mask2len evaluated on every such mask return the length (the conversions are inverse)
  * R-KIND           in every `switch (family)` arm the address is viewed through the record of that family
                     (sockaddr_in / sockaddr_in6 / sockaddr_un) and sized with it; the word counts 1 / 4 of the
                     membership and truncation routines agree with sizeof(in_addr) / sizeof(in6_addr)
  * R-ENDIAN         sin_port / sin6_port are converted with ntohs/htons wherever they are read or written
  * R-SIB            sa_addr_from_str and sa_addr_port_from_str trim, copy and parse the address text identically
"""
import itertools
from rules import driver, core, r_mpt, r_stride, r_endian
from rules.core import walk, key, const_val, strip_casts
from props import common, memsafe, fixtures

TRUSTED = ["clang 14 front end + CFG builder", "tool/lcbfacts.cc", "rules/r_stride.py partial evaluator", "rules/absint.py",
           "libc contracts of inet_ntop/strlcpy/strnlen (write at most the size given, NUL terminated)", "python3"]
SA = "src/net/socket_address.c"
NU = "src/net/utils.c"
AF = {"AF_UNIX": 1, "AF_INET": 2, "AF_INET6": 10}
REC_OF = {1: "sockaddr_un", 2: "sockaddr_in", 10: "sockaddr_in6"}


def need(u, name):
    fn = u.fn(name)
    if fn is None or not fn.has_cfg:
        raise driver.AnalysisBroken("anchor %s vanished" % name)
    return fn


# ------------------------------------------------------------------ R-LAYOUT (text)

def text_layout(rep, u, fname="sa_addr_port_to_str", addr_callee="sa_addr_to_str", port_callee="u162str", port_get="sa_port_get"):
    fn = need(u, fname)
    rep.functions.add(fname)
    ADDR, BUF, RET = 0x10000, 0x20000, 0x30000
    pn = [p["n"] for p in fn.params]
    if len(pn) < 4:
        raise driver.AnalysisBroken("%s: unexpected parameter list" % fname)
    p_addr, p_buf, p_size, p_ret = pn[:4]
    fam_key = "%s->ss_family" % p_addr
    cases = 0
    bad = []
    undec = None
    called = {c.get("fn") for _, _, c, _ in fn.calls()}
    for cal in (addr_callee, port_callee, port_get):
        if cal not in called:
            raise driver.AnalysisBroken("%s no longer calls %s: the layout rule's callee table is out of date" % (fname, cal))
    for fam, size, addr_ok, port in itertools.product((1, 2, 10), (1, 2, 3, 4, 9, 16, 64), (True, False), (0, 7, 65535)):
        # the text the address callee produces: as long as its capacity allows (it returns 0 only if it fits)
        for L in ((1, 2, 5, 39) if addr_ok else (0,)):
            plen = len(str(port)) if port else 0
            pe = r_stride.PE(u, call_default={addr_callee: 0 if addr_ok else 28, port_callee: 0, port_get: port})
            pe.out_default = {addr_callee: {3: L}, port_callee: {3: plen}}
            bind = {p_addr: ADDR, fam_key: fam, p_buf: BUF, p_size: size, p_ret: RET}
            ev, ret = pe.trace(fn, bind)
            if isinstance(ret, str):
                undec = undec or "family=%d size=%d: %s" % (fam, size, ret)
                continue
            what = "family=%s buf_size=%d address text %s port=%d" % ({1: "AF_UNIX", 2: "AF_INET", 10: "AF_INET6"}[fam], size,
                                                                     ("of %d bytes" % L) if addr_ok else "refused", port)

            def val(x, b):
                return r_mpt.eval_expr(x, {}, pe._hook(b, {}))
            regions = []       # (start, length, what)
            infeasible = False
            prob = None
            reported = None
            for e, b in ev:
                for x, ps in walk(e):
                    try:
                        if x.get("k") == "call" and x.get("fn") in (addr_callee, port_callee):
                            p_, cap = val(x["args"][1], b), val(x["args"][2], b)
                            off = p_ - BUF
                            if cap < 0:
                                prob = prob or "%s is given the capacity %s = %d: as size_t it wraps to SIZE_MAX%+d and the callee may write far beyond the %d-byte buffer" % (
                                    x["fn"], key(x["args"][2])[:40], cap, cap + 1, size)
                            elif off < 0 or off + cap > size:
                                prob = prob or "%s is given %d bytes at offset %d of a %d-byte buffer" % (x["fn"], cap, off, size)
                            n_ = L if x["fn"] == addr_callee else plen
                            if x["fn"] == addr_callee and addr_ok and cap >= 0 and not (n_ < cap):
                                infeasible = True          # the callee returns 0 only when the text fits its capacity
                            if x["fn"] == port_callee and cap >= 0 and not (n_ < cap):
                                prob = prob or "%s gets %d bytes for a %d-digit port and its terminator" % (x["fn"], cap, n_)
                            if (x["fn"] == addr_callee and addr_ok) or x["fn"] == port_callee:
                                regions.append((off, n_, "the text written by %s" % x["fn"]))
                        elif x.get("k") == "bin" and x["op"] == "=" and strip_casts(x["x"]).get("k") in ("sub", "un"):
                            a = pe._addr(strip_casts(x["x"]), lambda z: val(z, b))
                            if BUF - 0x1000 <= a < BUF + 0x1000:
                                c = val(x["y"], b)
                                if not (0 <= a - BUF < size):
                                    prob = prob or "the store at line %s writes byte %d of a %d-byte buffer" % (x.get("ln"), a - BUF, size)
                                regions.append((a - BUF, 1 if c != 0 else 0, "%r (line %s)" % (chr(c) if 32 <= c < 127 else c, x.get("ln"))))
                            elif a == RET:
                                reported = val(x["y"], b)
                    except (r_mpt.Unknown, KeyError, TypeError):
                        undec = undec or "%s: an address or value at line %s could not be evaluated" % (what, x.get("ln"))
            if infeasible:
                continue
            cases += 1
            if prob is None and ret == 0:
                # pieces must tile [0, end) : sorted by start, each begins where the previous ended
                pos = 0
                for st, ln_, w in sorted((r for r in regions if r[1] > 0), key=lambda r: (r[0], -r[1])):
                    if st < pos:
                        prob = "%s lands inside the bytes already written before it (offset %d, text so far ends at %d)" % (w, st, pos)
                        break
                    if st > pos:
                        prob = "bytes %d..%d of the text are never written (next piece: %s)" % (pos, st - 1, w)
                        break
                    pos = st + ln_
                if prob is None and reported is not None and reported != pos:
                    prob = "the reported size is %d but the text ends at %d" % (reported, pos)
                if prob is None:
                    want = (1 if fam == 10 else 0) + L + (1 if fam == 10 else 0) + ((1 + plen) if port else 0)
                    if pos != want:
                        prob = "the text is %d bytes long, expected %d ('['? address ']'? ':' port)" % (pos, want)
                    if prob is None and not any(st == pos and ln_ == 0 for st, ln_, w in regions) and not port:
                        pass    # terminator written by the callee
            if prob:
                kind = prob.split(" ")[0] + prob.split(" ")[1]
                if kind not in {k for k, _ in bad}:
                    bad.append((kind, "%s: %s" % (what, prob)))
    desc = ("%s: callee capacities inside the buffer, pieces '[' address ']' ':' port contiguous and non-overlapping, stores in "
            "bounds, reported size = end of text, for every family / buffer size / callee outcome / port class" % fname)
    if bad:
        rep.violated("R-LAYOUT", fn, "text-layout", desc, "; ".join(b for _, b in bad[:3]))
    elif undec:
        rep.undecided("R-LAYOUT", fn, "text-layout", desc, undec)
    else:
        rep.proved("R-LAYOUT", fn, "text-layout", desc, "%d feasible call classes" % cases)
    return cases


def addr_text(rep, u, fname="sa_addr_to_str"):
    """sa_addr_to_str over family x buffer size x libc outcome: capacity given to libc inside the buffer, reported size =
    length of the text, success exactly when the text and its terminator fit"""
    fn = need(u, fname)
    rep.functions.add(fname)
    pn = [p["n"] for p in fn.params]
    p_addr, p_buf, p_size, p_ret = pn[:4]
    ADDR, BUF, RET, SIN = 0x10000, 0x20000, 0x30000, 0x10008
    called = {c.get("fn") for _, _, c, _ in fn.calls()}
    for cal in ("inet_ntop", "sa_addr_get"):
        if cal not in called:
            raise driver.AnalysisBroken("%s no longer calls %s" % (fname, cal))
    n = 0
    bad = undec = None
    for fam, size, L in itertools.product((1, 2, 10), (1, 2, 8, 16, 46), (0, 1, 7, 15, 16, 45, 60)):
        ok = True
        bind = {p_addr: ADDR, "%s->ss_family" % p_addr: fam, p_buf: BUF, p_size: size, p_ret: RET, "*(__errno_location())": 28}
        if fam != 1:
            # inet_ntop succeeds exactly when the text and its terminator fit the capacity it is *given*: read that capacity
            pe0 = r_stride.PE(u, call_default={"inet_ntop": BUF, "sa_addr_get": SIN, "strnlen": min(L, size), "strlcpy": L, "__errno_location": 0x40000,
                                               "memchr": 0, "memcmp": 1})
            pe0.memory[0x40000] = 28
            ev0, _r0 = pe0.trace(fn, bind)
            cap0 = None
            for e0, b0 in ev0:
                for x0, _ in walk(e0):
                    if x0.get("k") == "call" and x0.get("fn") == "inet_ntop":
                        try:
                            cap0 = r_mpt.eval_expr(x0["args"][3], {}, pe0._hook(b0, {}))
                        except r_mpt.Unknown:
                            cap0 = None
            if cap0 is None:
                undec = undec or "family=%s buf_size=%d: the capacity handed to inet_ntop is not evaluable" % (FAM_NAME[fam], size)
                continue
            ok = L + 1 <= cap0
        # strnlen(s, max) = min(length, max): on the AF_UNIX arm the bound is the size of sun_path (108), otherwise the buffer size
        # memchr(buf, '.') = NULL / memcmp(addr, zeros, 12) != 0: the text is not the mixed notation of an address in ::/96
        pe = r_stride.PE(u, call_default={"inet_ntop": BUF if ok else 0, "sa_addr_get": SIN, "strnlen": min(L, 108) if fam == 1 else min(L, size),
                                           "strlcpy": L, "__errno_location": 0x40000, "memchr": 0, "memcmp": 1})
        pe.memory[0x40000] = 28
        ev, ret = pe.trace(fn, bind)
        what = "family=%s buf_size=%d text of %d bytes%s" % (FAM_NAME[fam], size, L, "" if ok else " (inet_ntop fails)")
        if isinstance(ret, str):
            undec = undec or "%s: %s" % (what, ret)
            continue
        n += 1

        def val(x, b):
            return r_mpt.eval_expr(x, {}, pe._hook(b, {}))
        reported = None
        for e, b in ev:
            for x, ps in walk(e):
                try:
                    if x.get("k") == "call" and x.get("fn") in ("inet_ntop", "strlcpy"):
                        a_ptr, a_cap = (x["args"][2], x["args"][3]) if x["fn"] == "inet_ntop" else (x["args"][0], x["args"][2])
                        p_, cap = val(a_ptr, b), val(a_cap, b)
                        if cap < 0 or p_ < BUF or p_ - BUF + cap > size:
                            bad = bad or "%s: %s is given %d bytes at offset %d of a %d-byte buffer" % (what, x["fn"], cap, p_ - BUF, size)
                    elif x.get("k") == "bin" and x["op"] == "=" and strip_casts(x["x"]).get("k") in ("sub", "un"):
                        a = pe._addr(strip_casts(x["x"]), lambda z: val(z, b))
                        if a == RET:
                            reported = val(x["y"], b)
                        elif BUF - 0x100 <= a < BUF + 0x1000 and not (0 <= a - BUF < size):
                            bad = bad or "%s: store at byte %d of a %d-byte buffer" % (what, a - BUF, size)
                except (r_mpt.Unknown, KeyError, TypeError):
                    undec = undec or "%s: a value at line %s could not be evaluated" % (what, x.get("ln"))
        if not ok:
            if ret == 0:
                bad = bad or "%s: success is returned" % what
            elif L < size:
                bad = bad or "%s: the text and its terminator fit the buffer, but inet_ntop is given less than the buffer and fails" % what
            continue
        text = L if fam == 1 else min(L, size)
        fits = text < size
        if (ret == 0) != fits:
            bad = bad or "%s: returns %s although the text and its terminator %s" % (what, ret, "fit" if fits else "do not fit")
        elif reported is not None and reported != text:
            bad = bad or "%s: reports a size of %s" % (what, reported)
    # RFC 5952 section 5: the mixed notation is for the well-known IPv4 prefixes only; glibc's inet_ntop also uses it for the
    # deprecated IPv4-compatible ::/96 ("::0.1.0.128" for ::1:80).  Class: AF_INET6, inet_ntop text contains '.', first 96 bits 0:
    # the text must be rewritten by a bounded formatter whose result is the reported size.
    for size, L2 in itertools.product((8, 16, 46), (3, 7, 11)):
        bind = {p_addr: ADDR, "%s->ss_family" % p_addr: 10, p_buf: BUF, p_size: size, p_ret: RET}
        pe = r_stride.PE(u, call_default={"inet_ntop": BUF, "sa_addr_get": SIN, "strnlen": min(11, size), "__errno_location": 0x40000,
                                           "memchr": BUF + 2, "memcmp": 0, "snprintf": L2})
        for i_ in range(16):
            pe.memory[SIN + i_] = 0 if i_ < 12 else 1
        ev, ret = pe.trace(fn, bind)
        what = "AF_INET6 in ::/96, inet_ntop gave the mixed notation, buf_size=%d, rewritten text of %d bytes" % (size, L2)
        n += 1
        if isinstance(ret, str):
            undec = undec or "%s: %s" % (what, ret)
            continue
        fmt = [x for e, b in ev for x, _ in walk(e) if x.get("k") == "call" and x.get("fn") in ("snprintf", "__builtin___snprintf_chk")]
        ntop = [x for e, b in ev for x, _ in walk(e) if x.get("k") == "call" and x.get("fn") == "inet_ntop"]
        reported = ev[-1][1].get("*(%s)" % p_ret) if ev else None
        if fmt and ntop:
            bad = bad or ("%s: inet_ntop writes its longer mixed text into the caller's buffer first: a buffer that holds the final text (\"::1:80\", 7 bytes) is refused "
                          "unless it also holds \"::0.1.0.128\" (12 bytes)" % what)
        elif not fmt:
            bad = bad or "%s: the text is returned as inet_ntop wrote it (\"::0.1.0.128\" instead of the RFC 5952 form \"::1:80\")" % what
        elif (ret == 0) != (L2 < size):
            bad = bad or "%s: returns %s" % (what, ret)
        elif reported != L2:
            bad = bad or "%s: reports a size of %s" % (what, reported)
    desc = ("%s: libc gets a capacity inside the buffer, the reported size is the length of the text, success exactly when "
            "text and terminator fit, for every family / buffer size / text length class; IPv4-compatible addresses are not "
            "left in the mixed notation" % fname)
    (rep.violated if bad else rep.undecided if undec else rep.proved)("R-LAYOUT", fn, "addr-text", desc, bad or undec or "%d classes" % n)
    return n


# ------------------------------------------------------------------ R-TBL / R-SPEC masks

def ref_mask32(i):
    """network-order image (as the little-endian host sees it) of i leading one bits"""
    return int.from_bytes(((0xffffffff << (32 - i)) & 0xffffffff).to_bytes(4, "big"), "little")


def mask_table(rep, u):
    g = u.globals.get("pref_to_mask")
    fn = need(u, "inet_len2mask")
    if g is None:
        raise driver.AnalysisBroken("anchor pref_to_mask vanished")
    v = [int(x) for x in core.global_value(u, g)]
    desc = "pref_to_mask[i] is the network byte order image of i leading one bits, i = 0..32 (little-endian host)"
    badi = [i for i in range(min(len(v), 33)) if v[i] != ref_mask32(i)]
    if len(v) != 33:
        rep.violated("R-TBL", fn, "pref_to_mask", desc, "%d entries instead of 33" % len(v))
    elif badi:
        rep.violated("R-TBL", fn, "pref_to_mask", desc, "entry %d is %#x, expected %#x" % (badi[0], v[badi[0]], ref_mask32(badi[0])))
    else:
        rep.proved("R-TBL", fn, "pref_to_mask", desc, "33 entries")
    return v


def _stores(pe, ev, lo, hi):
    out = []
    for e, b in ev:
        for x, ps in walk(e):
            if x.get("k") == "bin" and x["op"] == "=" and strip_casts(x["x"]).get("k") in ("sub", "un", "mem"):
                try:
                    a = pe._addr(strip_casts(x["x"]), lambda z: r_mpt.eval_expr(z, {}, pe._hook(b, {})))
                except (r_mpt.Unknown, KeyError, TypeError):
                    continue
                if lo <= a < hi:
                    try:
                        v = r_mpt.eval_expr(x["y"], {}, pe._hook(b, {})) & 0xffffffff
                    except (r_mpt.Unknown, KeyError, TypeError):
                        v = None               # e.g. a read outside the table
                    out.append((a - lo, v))
    return out


def mask_functions(rep, u, table):
    """exhaustive over the prefix length"""
    MASK, TBL = 0x50000, 0x60000
    n = 0
    for fname, words, inv in (("inet_len2mask", 1, "inet_mask2len"), ("inet6_len2mask", 4, "inet6_mask2len")):
        fn, fi = need(u, fname), need(u, inv)
        rep.functions.update([fname, inv])
        bits = 32 * words
        bad = undec = None
        badi = undeci = None
        for l in range(0, bits + 3):
            pe = r_stride.PE(u)
            for i, t in enumerate(table):
                pe.memory[TBL + 4 * i] = t
            bind = {fn.params[0]["n"]: l, fn.params[1]["n"]: MASK, "pref_to_mask": TBL}
            ev, ret = pe.trace(fn, bind)
            if isinstance(ret, str):
                undec = undec or "len=%d: %s" % (l, ret)
                continue
            n += 1
            st = _stores(pe, ev, MASK, MASK + 64)
            if l > bits:
                if ret == 0 or st:
                    bad = bad or "prefix length %d is not refused (returns %s, %d stores)" % (l, ret, len(st))
                continue
            want = [(0xffffffff if l >= 32 * (w + 1) else ref_mask32(max(0, l - 32 * w))) for w in range(words)]
            got = {}
            for off, v in st:
                if off % 4 or off // 4 >= words:
                    bad = bad or "len=%d: a store at byte offset %d of the %d-byte mask" % (l, off, 4 * words)
                elif off // 4 in got:
                    bad = bad or "len=%d: word %d of the mask is written twice" % (l, off // 4)
                else:
                    got[off // 4] = v
            if ret != 0:
                bad = bad or "len=%d is refused (returns %s)" % (l, ret)
            elif sorted(got) != list(range(words)):
                bad = bad or "len=%d: words %s of the mask are never written" % (l, [w for w in range(words) if w not in got])
            elif [got[w] for w in range(words)] != want:
                bad = bad or "len=%d: mask words %s, expected %s" % (l, ["%#x" % got[w] for w in range(words)], ["%#x" % w_ for w_ in want])
            # the inverse on the arithmetic mask
            pi = r_stride.PE(u)
            for i, t in enumerate(table):
                pi.memory[TBL + 4 * i] = t
            for w in range(words):
                pi.memory[MASK + 4 * w] = want[w]
            bi = {fi.params[0]["n"]: MASK, "pref_to_mask": TBL, "%s->s_addr" % fi.params[0]["n"]: want[0]}
            evi, reti = pi.trace(fi, bi)
            if isinstance(reti, str):
                undeci = undeci or "mask of length %d: %s" % (l, reti)
            elif reti != l:
                badi = badi or "the mask of prefix length %d is converted back to %s" % (l, reti)
        # masks that are no prefix mask (ones after a zero): both families answer 0 - "conversions are inverse" means
        # len2mask(mask2len(m)) == m for every m that mask2len maps to a length
        badn = undecn = None
        nonc = []
        for w in range(words):
            for hole in (ref_mask32(1), ref_mask32(9) & ~ref_mask32(8) | ref_mask32(4), 0):
                for tail in (0xffffffff, ref_mask32(8), 0x01000000):
                    if w + 1 >= words and words > 1:
                        continue
                    m = [0xffffffff] * w + [hole] + ([tail] + [0] * (words - w - 2) if words - w - 1 > 0 else [])
                    if len(m) == words and any(t for t in m[w + 1:]):
                        nonc.append(m)
        if words == 1:
            nonc = [[ref_mask32(9) & ~ref_mask32(8) | ref_mask32(4)], [0x01000000], [ref_mask32(32) & ~ref_mask32(1)]]
        for m in nonc:
            pi = r_stride.PE(u)
            for i, t in enumerate(table):
                pi.memory[TBL + 4 * i] = t
            for w in range(words):
                pi.memory[MASK + 4 * w] = m[w]
            bi = {fi.params[0]["n"]: MASK, "pref_to_mask": TBL, "%s->s_addr" % fi.params[0]["n"]: m[0]}
            evi, reti = pi.trace(fi, bi)
            n += 1
            if isinstance(reti, str):
                undecn = undecn or "%s: %s" % (["%#x" % t for t in m], reti)
            elif reti != 0:
                badn = badn or "the non-contiguous mask %s is converted to prefix length %s; %s of that length is a different mask" % (
                    " ".join("%08x" % t for t in m), reti, fname)
        desc = "%s returns 0 for masks that are not a run of ones followed by zeros" % inv
        (rep.violated if badn else rep.undecided if undecn else rep.proved)("R-SPEC", fi, "mask2len-noncontiguous", desc, badn or undecn or "%d masks" % len(nonc))
        desc = "%s writes every word of the mask once with the value of the arithmetic mask for len = 0..%d and refuses larger lengths" % (fname, bits)
        (rep.violated if bad else rep.undecided if undec else rep.proved)("R-SPEC", fn, "len2mask", desc, bad or undec or "%d lengths evaluated" % (bits + 3))
        desc = "%s returns l on the mask of every prefix length l = 0..%d (inverse of %s)" % (inv, bits, fname)
        (rep.violated if badi else rep.undecided if undeci else rep.proved)("R-SPEC", fi, "mask2len", desc, badi or undeci or "%d masks evaluated" % (bits + 1))
    return n


# ------------------------------------------------------------------ R-KIND: family arm / record agreement

FAM_OF_REC = {"sockaddr_un": 1, "sockaddr_in": 2, "sockaddr_in6": 10, "in_addr": 2, "in6_addr": 10}
FAM_NAME = {1: "AF_UNIX", 2: "AF_INET", 10: "AF_INET6"}
ADDR_BYTES = {2: 4, 10: 16}


def _norm_type(s):
    s = s.replace("struct ", "").replace("const ", "").replace("*", "").strip()
    for suf in ("_t", "_p"):
        if s.endswith(suf):
            s = s[:-2]
    return {"in__addr": "in_addr"}.get(s, s)


def _family_switches(fn):
    for bid, b in fn.blocks.items():
        if not b.term or b.term.get("k") != "SwitchStmt" or b.cond is None or bid not in fn.reachable_blocks():
            continue
        k = key(b.cond)
        if "family" not in k:
            continue
        arms = {}
        for s_ in b.rsucc():
            lab = fn.blocks[s_].label
            if lab and lab.get("case") in FAM_NAME:
                arms[lab["case"]] = s_
        if arms:
            yield bid, arms


def _arm_regions(fn, sw, arms):
    """block -> set of families whose case label reaches it before the switch's join"""
    out = {}
    for fam, start in arms.items():
        seen = set()
        work = [start]
        while work:
            b = work.pop()
            if b in seen or b == fn.exit or (b != start and fn.postdominates(b, sw)):
                continue
            seen.add(b)
            work.extend(fn.blocks[b].rsucc())
        for b in seen:
            out.setdefault(b, set()).add(fam)
    return out


def unix_path_rule(rep, u, rel):
    """sun_path is a fixed array that may be filled completely, without a terminator (the comparison routines of this file
    already allow for that).  In the AF_UNIX arm of every family switch no routine that scans its *source* for a NUL
    (strlcpy, strlen, strcpy, strcat) is applied to the address bytes."""
    SCAN = {"strlcpy": 1, "strlen": 0, "strcpy": 1, "strcat": 1, "strlcat": 1}
    n = 0
    for fn in u.function_list:
        if fn.relfile() != rel or not fn.has_cfg:
            continue
        for sw, arms in _family_switches(fn):
            reg = _arm_regions(fn, sw, arms)
            for b, fams in reg.items():
                if fams != {1}:
                    continue
                for e in fn.blocks[b].elems:
                    for x, _ in walk(e):
                        if x.get("k") == "call" and x.get("fn") in SCAN:
                            src = x["args"][SCAN[x["fn"]]]
                            s0 = core.base_ref(src)
                            from_addr = "sun_path" in key(src)
                            if s0 is not None and s0.get("dk") == "local":
                                defs = [y["y"] for _p, _r, y, _ps in fn.nodes() if y.get("k") == "bin" and y["op"] == "=" and core.is_ref(strip_casts(y["x"]), id=s0["id"])]
                                from_addr = from_addr or any(strip_casts(d_).get("k") == "call" and strip_casts(d_).get("fn") == "sa_addr_get" for d_ in defs)
                            if not from_addr:
                                # the source is the caller's C string: scanning it is fine, but a copy into the fixed field must not
                                # truncate silently (a different socket path would be stored)
                                if x["fn"] == "strlcpy" and "sun_path" in key(x["args"][0]):
                                    n += 1
                                    rep.functions.add(fn.name)
                                    par_used = any(p_.get("k") in ("bin", "call") for p_ in _[-3:]) if _ else False
                                    (rep.proved if par_used else rep.violated)(
                                        "R-ERR", fn, "unix-path-truncation#%d" % n, "%s: a path that does not fit sun_path is refused" % fn.name,
                                        "" if par_used else "the result of strlcpy at line %s is dropped: a path of 108..111 characters is cut to 107 and "
                                        "success is returned" % x.get("ln"), x.get("ln"))
                                continue
                            n += 1
                            rep.functions.add(fn.name)
                            rep.violated("R-BAN", fn, "unix-path-scan#%d" % n, "%s: the AF_UNIX path is not scanned for a terminator it need not have" % fn.name,
                                         "%s(%s) at line %s reads the source up to a NUL: a sun_path filled with 108 bytes is read past the "
                                         "address object" % (x["fn"], key(src)[:40], x.get("ln")), x.get("ln"))
    if n == 0:
        rep.proved("R-BAN", "", "unix-path-scan", "no NUL-scanning routine is applied to sun_path in an AF_UNIX arm of %s" % rel, "", file=rel, unit=rel)
    return n


def kind_rule(rep, u, rel, fns=None):
    n = 0
    for fn in (fns if fns is not None else u.function_list):
        if (fns is None and fn.relfile() != rel) or not fn.has_cfg:
            continue
        for sw, arms in _family_switches(fn):
            reg = _arm_regions(fn, sw, arms)
            rep.functions.add(fn.name)
            per = {}
            for b, fams in reg.items():
                if len(fams) != 1:
                    continue
                fam = next(iter(fams))
                for e in fn.blocks[b].elems:
                    for x, ps in walk(e):
                        t = None
                        if x.get("k") == "sizeof" and x.get("of"):
                            t = _norm_type(x["of"])
                        elif x.get("k") == "cast" and not x.get("imp") and "t" in x and u.type(x["t"])["k"] == "ptr":
                            pt = u.type(u.type(x["t"])["to"])
                            t = _norm_type(pt.get("rec") or pt.get("c") or pt.get("s") or "")
                        elif x.get("k") == "mem" and x.get("rec"):
                            t = _norm_type(x["rec"])
                        if t in FAM_OF_REC:
                            per.setdefault(fam, []).append((t, x.get("ln")))
                    # word counts: a constant assigned to the local that bounds a loop over 32-bit words
                    if e.get("k") == "bin" and e["op"] == "=" and strip_casts(e["x"]).get("k") == "ref" and const_val(e["y"]) is not None \
                            and fam in ADDR_BYTES and _bounds_word_loop(fn, strip_casts(e["x"])):
                        per.setdefault(fam, []).append(("words:%d" % const_val(e["y"]), e.get("ln")))
            for fam, items in sorted(per.items()):
                n += 1
                inst = "arm:%s@%s" % (FAM_NAME[fam], fn.blocks[sw].term.get("ln") and "switch#%d" % sorted(b_ for b_, _ in _family_switches(fn)).index(sw))
                desc = "in the %s arm of %s the address is viewed and sized through that family's records" % (FAM_NAME[fam], fn.name)
                wrong = [(t, ln) for t, ln in items if (t.startswith("words:") and int(t[6:]) * 4 != ADDR_BYTES[fam]) or
                         (not t.startswith("words:") and FAM_OF_REC[t] != fam)]
                if wrong:
                    t, ln = wrong[0]
                    rep.violated("R-KIND", fn, inst, desc, ("%s 32-bit words for a %d-byte address" % (t[6:], ADDR_BYTES[fam])) if t.startswith("words:")
                                 else "%s (family %s) is used at line %s" % (t, FAM_NAME[FAM_OF_REC[t]], ln), ln)
                else:
                    rep.proved("R-KIND", fn, inst, desc, "%d typed references" % len(items))
    return n


def _bounds_word_loop(fn, var):
    for h, body in fn.loops().items():
        c = fn.blocks[h].cond
        if c is not None and any(core.is_ref(x, id=var.get("id")) for x, _ in walk(c)):
            for b in body:
                for e in fn.blocks[b].elems:
                    for x, _ in walk(e):
                        if x.get("k") == "sub" and "t" in x["b"] and fn.unit.elem_size(x["b"]["t"]) == 4:
                            return True
    return False


# ------------------------------------------------------------------ R-SIB: the two text parsers

def parser_siblings(rep, u):
    import copy
    import collections
    fa, fb = need(u, "sa_addr_from_str"), need(u, "sa_addr_port_from_str")
    rep.functions.update([fa.name, fb.name])

    def locals_of(fn):
        out = []
        for b in fn.rpo():
            for e in fn.blocks[b].elems:
                for x, _ in walk(e):
                    if x.get("k") == "decl":
                        for v in x.get("vars", []):
                            if v["n"] not in out:
                                out.append(v["n"])
        return out

    def keys(fn, ren):
        ids = {p["id"]: "p%d" % i for i, p in enumerate(fn.params)}
        out = []

        def r(n):
            if isinstance(n, dict):
                if n.get("k") == "ref" and n.get("dk") in ("local", "parm"):
                    n["n"] = ids.get(n.get("id")) or ren.get(n["n"], n["n"])
                for v in n.values():
                    r(v)
            elif isinstance(n, list):
                for v in n:
                    r(v)
        for b in fn.rpo():
            for e in fn.blocks[b].elems:
                if e.get("k") == "decl":
                    continue
                c = copy.deepcopy(e)
                r(c)
                out.append(key(c))
        return collections.Counter(out)
    la, lb = locals_of(fa), locals_of(fb)
    kb = keys(fb, {n_: "L%d" % i for i, n_ in enumerate(lb)})
    best = None
    for perm in itertools.permutations(range(len(lb)), len(la)):
        ka = keys(fa, {n_: "L%d" % perm[i] for i, n_ in enumerate(la)})
        diff = ka - kb
        if best is None or sum(diff.values()) < sum(best.values()):
            best = diff
            if not sum(diff.values()) - sum(v for k_, v in diff.items() if "sa_port_set(" in k_):
                break
    import re as _re

    def port_only(k_):
        """the statement passes port 0 to a routine that the port flavour calls too (with its parsed port): sa_port_set in the
        duplicated layout, the shared address-text helper in the factored one"""
        m_ = _re.match(r"^(?:return\s+)?(\w+)\(.*,\s*0\)$", k_)
        return bool(m_) and any((m_.group(1) + "(") in kk for kk in kb)
    rest = [k_ for k_ in best if not port_only(k_)]
    desc = ("every statement of sa_addr_from_str (trimming of blanks and brackets, bounded copy, inet_pton over the family list, "
            "AF_UNIX fallback) occurs in sa_addr_port_from_str up to the names of locals; only the port argument differs")
    if rest:
        rep.violated("R-SIB", fb, "parser-tail", desc, "not matched: %s" % "; ".join(r_[:70] for r_ in rest[:3]))
    else:
        rep.proved("R-SIB", fb, "parser-tail", desc, "%d statements" % sum(keys(fa, {}).values()))
    return 1


def prefix_passthrough(rep, u, fname="str_net_to_ss"):
    """the prefix length reported by the network-text parser: a '/n' suffix with any n in 0..128 reaches *preflen_ret
    unchanged (the 'no suffix' marker may not collide with a legal length), and without a suffix the family's full length is
    reported.  Partial evaluation over (suffix present, n, family); the number parser, the delimiter search and the address
    parser are represented by their results."""
    fn = need(u, fname)
    rep.functions.add(fname)
    numcalls = [c for _p, _r, c, _ps in fn.calls() if (c.get("fn") or "").startswith(("str2u", "ustr2u", "strtou"))]
    srch = [c for _p, _r, c, _ps in fn.calls() if (c.get("fn") or "").startswith(("mem_rchr", "mem_chr", "memchr", "memrchr", "strchr", "strrchr"))]
    addrp = [c for _p, _r, c, _ps in fn.calls({"sa_addr_from_str", "sa_addr_port_from_str"})]
    if len(numcalls) != 1 or len(srch) != 1 or len(addrp) != 1:
        raise driver.AnalysisBroken("%s: expected one number parser, one delimiter search and one address parser (%d/%d/%d)" % (
            fname, len(numcalls), len(srch), len(addrp)))
    BUF, ADDR, OUT = 0x1000, 0x2000, 0x3000
    n = 0
    for fam, fname_, full in ((2, "AF_INET", 32), (10, "AF_INET6", 128)):
        for have, v in [(1, x) for x in (0, 1, 8, 24, 31, 32, 33, 64, 127, 128)] + [(0, None)]:
            pe = r_stride.PE(u)
            for i_ in range(20):
                pe.memory[BUF + i_] = 0x31
            bind = {"buf": BUF, "buf_size": 20, "addr": ADDR, "preflen_ret": OUT, "addr->ss_family": fam,
                    key(srch[0]): (BUF + 10) if have else 0, key(addrp[0]): 0}
            if numcalls[0].get("fn", "").endswith("_chk"):
                # status + value through the last argument
                bind[key(numcalls[0])] = 0
                if have:
                    pe.out_default = {numcalls[0]["fn"]: {len(numcalls[0]["args"]) - 1: v}}
            elif have:
                bind[key(numcalls[0])] = v
            else:
                bind[key(numcalls[0])] = r_stride.UNSURE
            ev, ret = pe.trace(fn, bind)
            n += 1
            inst = "prefix:%s:%s" % (fname_, ("/%d" % v) if have else "none")
            desc = "%s reports %s for %s text %s" % (fname, ("the written prefix length %d" % v) if have else ("the full length %d" % full), fname_,
                                                      "with a '/%d' suffix" % v if have else "without a suffix")
            if isinstance(ret, str):
                rep.undecided("R-SPEC", fn, inst, desc, ret)
                continue
            got = ev[-1][1].get("*(preflen_ret)") if ev else None
            want = v if have else full
            if have and v > full:
                # longer than the family's address: not a network of this family
                desc = "%s refuses %s text with a '/%d' suffix (longer than the %d bit address)" % (fname, fname_, v, full)
                (rep.proved if ret != 0 else rep.violated)("R-SPEC", fn, inst, desc, "status %s" % ret if ret != 0 else
                                                           "accepted with *preflen_ret = %s: \"10.0.0.0/%d\" is taken as a network and indexes the 33-entry mask table behind its end" % (got, v))
                continue
            if ret != 0:
                rep.violated("R-SPEC", fn, inst, desc, "the call fails with status %s although the address parser accepted the text" % ret)
            elif got == want:
                rep.proved("R-SPEC", fn, inst, desc, "*preflen_ret = %s" % got)
            elif got is None or got == r_stride.UNSURE:
                rep.undecided("R-SPEC", fn, inst, desc, "stored value not evaluable")
            else:
                rep.violated("R-SPEC", fn, inst, desc, "*preflen_ret = %s: %s" % (got, "the 'no suffix' marker collides with this legal length"
                                                                                   if have else "wrong default"))
    return n


LENIENT = ("str2u", "ustr2u", "str2s", "ustr2s", "strtoul", "strtol", "atoi", "atol")


def strict_number_rule(rep, us):
    """"Parsing ... rejects everything else with an error": the numeric parts of an address text (port, prefix length) are
    parsed by a routine that can fail.  The str2u* family cannot: it skips every non-digit byte and wraps modulo the type,
    so "1.2.3.4:http" is port 0, ":65616" is port 80 and "/x" is prefix 0 (the whole Internet).  In the two text parsers no
    such routine is applied to the input text; the strict replacement is evaluated on a table of spellings."""
    n = 0
    for lab, names in ((SA, ("sa_addr_port_from_str",)), (NU, ("str_net_to_ss",))):
        u = us[lab]
        for nm in names:
            fn = need(u, nm)
            rep.functions.add(nm)
            bad = [c for _p, _r, c, _ps in fn.calls() if (c.get("fn") or "").startswith(LENIENT) and not (c.get("fn") or "").endswith("_chk")]
            n += 1
            desc = "%s parses its numeric field with a routine that reports malformed text" % nm
            if bad:
                rep.violated("R-SPEC", fn, "strict-number", desc, "%s() at line %s cannot fail: non-digits are skipped and the value wraps (\"...:65616\" is 80, "
                             "\".../x\" is 0)" % (bad[0]["fn"], bad[0].get("ln")), bad[0].get("ln"))
            else:
                rep.proved("R-SPEC", fn, "strict-number", desc, "")
    # the strict parser itself, if present: spelling table
    uh = us[SA]
    fs = uh.fn("str2u16_chk")
    if fs is not None and fs.has_cfg:
        rep.functions.add(fs.name)
        T, OUT = 0x10000, 0x7000
        table = [("0", 0), ("80", 80), ("65535", 65535), ("00080", 80), ("65536", None), ("99999", None), ("100000", None), ("", None), ("-1", None),
                 ("0x50", None), ("http", None), ("8 0", None), (" 80", None), ("80 ", None), ("+5", None)]
        badt = undt = None
        for txt, want in table:
            pe = r_stride.PE(uh)
            for i, ch in enumerate(txt.encode()):
                pe.memory[T + i] = ch
            ev, ret = pe.trace(fs, {fs.params[0]["n"]: T, fs.params[1]["n"]: len(txt), fs.params[2]["n"]: 65535, fs.params[3]["n"]: OUT})
            n += 1
            if isinstance(ret, str):
                undt = undt or "%r: %s" % (txt, ret)
                continue
            got = ev[-1][1].get("*(%s)" % fs.params[3]["n"]) if ret == 0 else None
            if (ret == 0) != (want is not None) or (want is not None and got != want):
                badt = badt or "%r is %s%s" % (txt, "accepted" if ret == 0 else "refused", (" as %s" % got) if ret == 0 else "")
        desc = "str2u16_chk accepts exactly the decimal spellings of 0..65535"
        (rep.violated if badt else rep.undecided if undt else rep.proved)("R-SPEC", fs, "strict-number-table", desc, badt or undt or "%d spellings" % len(table))
    return n


def run(rep, tier):
    us = driver.load_units([common.src_unit(SA), common.src_unit(NU)])
    rep.use_units(us)
    usa, unu = us[SA], us[NU]
    rep.floor("text layout call classes", text_layout(rep, usa), 100)
    rep.floor("address text classes", addr_text(rep, usa), 40)
    table = mask_table(rep, unu)
    rep.floor("prefix lengths evaluated", mask_functions(rep, unu, table), 160)
    rep.floor("family switch arms", kind_rule(rep, usa, SA) + kind_rule(rep, unu, NU), 20)
    parser_siblings(rep, usa)
    unix_path_rule(rep, usa, SA)
    # no status of the address routines is dropped on the way to a success return (a refused path / family must surface)
    from rules import r_err
    S_, _ = r_err.status_functions(usa)
    nerr = 0
    for f_ in usa.function_list:
        if f_.relfile() == SA and f_.has_cfg:
            nerr += r_err.check(rep, f_, S_, {})
    rep.floor("status-returning calls in socket_address.c", nerr, 6)
    rep.floor("prefix text cases", prefix_passthrough(rep, unu), 16)
    rep.floor("numeric fields of the text parsers", strict_number_rule(rep, us), 2)
    from props import c18_audit
    rep.floor("bracket parsers", c18_audit.bracket_tail_rule(rep, usa), 2)
    c18_audit.whole_first_rule(rep, usa)
    rep.floor("address text copies", c18_audit.nul_rule(rep, usa), 1)
    rep.floor("port suffix capacity tests", c18_audit.port_capacity_rule(rep, usa), 1)
    rep.floor("network family switches", c18_audit.network_family_rule(rep, unu), 1)
    rep.floor("inet_ntop capacity arguments", c18_audit.socklen_rule(rep, usa), 1)
    rep.floor("first-byte guards of the port split", c18_audit.unix_no_split_rule(rep, usa), 2)
    rep.floor("family loops around inet_pton", c18_audit.family_offered_rule(rep, usa), 1)
    # compile witness: every library function the two files call is declared (gcc >= 14 / clang >= 16 reject an implicit
    # declaration; the older compilers of this image only warn)
    for lab_, ok_, err_ in driver.syntax_only([common.src_unit(SA, "c18:decl:" + SA, cflags=("-Werror=implicit-function-declaration",)),
                                               common.src_unit(NU, "c18:decl:" + NU, cflags=("-Werror=implicit-function-declaration",))]):
        (rep.proved if ok_ else rep.violated)("R-CFGX", "", lab_, "every function called is declared (no implicit declaration)", "" if ok_ else err_[-300:],
                                              file=SA if SA in lab_ else NU, unit=lab_)
    rep.floor("network texts with blanks", c18_audit.net_blank_rule(rep, unu), 5)
    nwf = nacc = 0
    for lab, u in us.items():
        fns_ = [f for f in u.function_list if f.relfile() == lab]
        wf = r_endian.wire_fields(u, fns_)
        missing = [w for w in (("sin_port", "sin6_port") if lab == SA else ()) if not any(w == f for (_r, f) in wf)]
        if lab == SA:
            desc = "sin_port and sin6_port are converted with ntohs/htons where they are read and written"
            (rep.violated if missing else rep.proved)("R-ENDIAN", "", "wire-fields:" + lab, desc,
                                                      ("no conversion at all for: %s" % ", ".join(missing)) if missing else "%d fields" % len(wf), file=lab, unit=lab)
        a, b = r_endian.check(rep, u, fns_, wf)
        nwf += a
        nacc += b
    rep.floor("port field accesses", nacc, 4)
    nfn, total = memsafe.run_scope(rep, tier, us)
    rep.floor("functions analysed", nfn, 30)
    rep.floor("tracked memory accesses", total, 50)
    return driver.finish(
        rep, "other",
        "Socket-address text and prefix arithmetic, structural clauses: sa_addr_port_to_str's layout over %d call classes (family x "
        "buffer size x callee outcome x port): callee capacities inside the buffer, brackets/colon/port contiguous and non-overlapping, "
        "reported size = end of text; pref_to_mask values; len2mask / mask2len for every prefix length 0..32 and 0..128 (words written "
        "once, arithmetic value, inverse); family arm / record agreement in every switch; port byte order; parser sibling agreement; "
        "relational abstract interpretation of all %d functions of the two files (accesses proved / undecided as listed). NOT decided: "
        "the text produced and accepted by inet_ntop / inet_pton (RFC 5952 form, round trip of address values), which spellings the "
        "parser accepts or rejects, network membership for arbitrary addresses." % (100, nfn),
        ["inet_ntop/strlcpy write at most the size they are given and terminate the text", "little-endian host (the table has no big-endian branch)"],
        TRUSTED)


def selftest():
    u = fixtures.load("satext.c")
    rep = driver.Report("fixture", "quick")
    for nm in ("fx_text_ok", "fx_text_bad_bracket", "fx_text_bad_wrap"):
        text_layout(rep, u, nm, "fx_addr_to_str", "fx_u162str", "fx_port_get")
    kind_rule(rep, u, None, [f for f in u.function_list if f.name.startswith("fx_size") or f.name.startswith("fx_port_bad")])
    fixtures.expect(rep, ["fx_text_bad_bracket", "fx_text_bad_wrap", "fx_size_bad", "fx_port_bad"], ["fx_text_ok", "fx_size_ok"], "R-LAYOUT/R-KIND")
