"""C01 — multi-precision arithmetic.

Decided clauses:
  * R-CFGX  all 10 digit-width x multiply/divide configurations parse
  * R-ERR   no bn_* status dropped (capacity overflow detected in a leaf is only loud if no caller drops it)
  * R-TS    bn_t locals initialised before use on every path
  * R-DIV   every variable divisor is excluded from being zero by a dominating test
  * R-SHIFT every variable shift amount is bounded below the operand width by a modulo/mask/guard,
            or listed as undecided; a guard that admits a boundary value making the amount >= width is a violation
  * R-CARRY a carry/borrow computed by comparison is consumed (or or-ed) before it is overwritten
  * R-WSHIFT both halves of a double-word shift (lo = X << s; hi = X >> (W - s)) use the same operand
  * R-WIDTH (8/16-bit digits) no comparison/shift/division on an untruncated wrap-sensitive digit expression
Not decided: numerical exactness of results.
"""
from rules import driver, core, r_err, r_mpt, r_range, ts_bn, r_carry, r_dim, r_loopvar
from rules.core import key, const_val, walk
from props import common, fixtures, memsafe, c01_audit

BN_H = "include/math/big_num.h"
TRUSTED = ["clang 14 front end + CFG builder", "tool/lcbfacts.cc", "rules/core.py", "python3"]

# excluded by the property text: self-declared broken / experimental routines
EXCLUDED = {"bn_egcd", "bn_mod_inv3", "bn_sqrt4"}

ERR_EXCEPTIONS = {
    ("bn_digits_add_digit_mult__int", "bn_digits_add"):
        "caller established a_count >= b_count (b is the single-digit product pair), the only failure of bn_digits_add",
    ("bn_div", "bn_assign_digit"): "bn_assign_digit(bn, 1) fails only for count == 0, excluded by the preceding bn_init",
}


def configs(tier):
    cs = []
    widths = (8, 16, 32, 64, 128) if tier == "thorough" else (8, 64)
    for w in widths:
        for cc in (0, 1):
            if tier == "quick" and (w, cc) not in ((64, 1), (8, 0), (64, 0)):
                continue
            defs = ["BN_DIGIT_BIT_CNT=%d" % w, "BN_MOD_REDUCE_ALGO=BN_MOD_REDUCE_ALGO_BASIC"]
            if cc:
                defs.append("BN_CC_MULL_DIV=1")
            cs.append(("bn:w%d:cc%d" % (w, cc), defs, w))
            if tier == "thorough":
                cs.append(("bn:w%d:cc%d:nochk" % (w, cc), defs + ["BN_NO_POINTERS_CHK=1"], w))
    return cs


def copies_of(fn, ref):
    """locals declared as a plain copy of variable `ref` (which is never written);
    returned with the position of the copy so that callers can check the copy is still
    unmodified where it is tested"""
    out = []
    for bid, i, e in fn.roots():
        if ref["id"] in r_range.writes_of(e):
            return []
    for bid, i, e in fn.roots():
        if e.get("k") == "decl":
            for v in e["vars"]:
                if "init" in v and core.is_ref(v["init"], id=ref["id"]):
                    out.append(({"k": "ref", "n": v["n"], "id": v["id"], "dk": "local", "t": v["t"], "ln": e["ln"]}, (bid, i)))
    return out


def copy_excludes_zero(fn, pos, copy, cpos, width):
    """a guard on the copy excludes zero for the original if the copy is not rewritten
    between its declaration and the guard"""
    from rules import r_mpt as _m
    vkey = key(copy)
    for gb, c, atom in r_range.guards_for(fn, pos, vkey):
        s, known = _m.edge_for_value(fn, gb, c, atom, 0)
        if not known:
            continue
        if s is not None and pos[0] in fn.reach_from([s], avoid=[gb]):
            continue
        # copy unmodified from declaration to the guard?
        if not fn.pos_dominates(cpos, (gb, len(fn.blocks[gb].elems) - 1)):
            continue
        dirty = False
        fwd = fn.reach_from([cpos[0]])
        back = set()
        st = [gb]
        while st:
            b = st.pop()
            if b in back:
                continue
            back.add(b)
            st.extend(p for p in fn.blocks[b].preds if p in fwd)
        for b in fwd & back:
            for j, e in enumerate(fn.blocks[b].elems):
                if b == cpos[0] and j <= cpos[1]:
                    continue
                if b == gb and j >= len(fn.blocks[gb].elems) - 1 and gb != cpos[0]:
                    continue
                if copy["id"] in r_range.writes_of(e):
                    dirty = True
        if not dirty:
            return True, "copy '%s' tested at line %s before any modification" % (copy["n"], c.get("ln"))
    return False, ""


def div_rule(rep, fn):
    n = 0
    for pos, root, node, parents in fn.nodes():
        if node.get("k") != "bin" or node["op"] not in ("/", "%", "/=", "%="):
            continue
        d = core.strip_imp(node["y"])
        if const_val(d) is not None:
            continue
        n += 1
        inst = "%s %s" % (node["op"], key(d))
        desc = "divisor %s is non-zero at the division" % key(d)
        dd = core.strip_casts(d)
        width = fn.unit.type(dd["t"]).get("w", 64)
        # additive form t + c
        if dd.get("k") == "bin" and dd["op"] == "+" and const_val(dd["y"]) is not None:
            c = const_val(dd["y"])
            t = core.strip_imp(dd["x"])
            zv = ((1 << width) - c) % (1 << width)
            tw = fn.unit.type(core.strip_casts(t)["t"]).get("w", 64)
            if zv >= (1 << tw):
                ok, why = True, "operand is %d bits wide, the sum is computed in %d bits and cannot be zero" % (tw, width)
            else:
                ok, why = r_range.excludes_zero(fn, pos, t, zero_value=zv, width=width)
        else:
            ok, why = r_range.excludes_zero(fn, pos, dd, 0, width)
            if not ok and dd.get("k") == "ref":
                # guard on a never-rewritten copy:  T reg = divisor; if (0 == reg) return;
                for al, cpos in copies_of(fn, dd):
                    ok, why = copy_excludes_zero(fn, pos, al, cpos, width)
                    if ok:
                        break
        if ok:
            rep.proved("R-DIV", fn, inst, desc, why, node["ln"])
        elif _caller_controlled(fn, dd):
            rep.violated("R-DIV", fn, inst, desc, "the divisor is a parameter (or assigned from one) and no dominating test excludes zero", node["ln"])
        else:
            # a value read from a data structure may be non-zero by an invariant this rule cannot see (e.g. the
            # normalised top digit of a divisor): not a finding, and nothing is claimed
            rep.undecided("R-DIV", fn, inst, desc, "no dominating test excludes zero; the divisor is not a parameter", node["ln"])
    return n


def _caller_controlled(fn, dd):
    """the divisor is a parameter, or a local whose every assignment copies a parameter"""
    dd = core.strip_casts(dd)
    if dd.get("k") == "bin" and dd["op"] == "+":
        dd = core.strip_casts(dd["x"])
    if dd.get("k") != "ref":
        return False
    if dd.get("dk") == "parm":
        return True
    srcs = []
    for pos, root, n, ps in fn.nodes():
        if n.get("k") == "bin" and n["op"] == "=" and core.is_ref(core.strip_casts(n["x"]), name=dd["n"]):
            srcs.append(core.strip_casts(n["y"]))
        if n.get("k") == "decl":
            for v in n["vars"]:
                if v["n"] == dd["n"] and v.get("init") is not None:
                    srcs.append(core.strip_casts(v["init"]))
    return bool(srcs) and all(x.get("k") == "ref" and x.get("dk") == "parm" for x in srcs)


def _ub_simple(fn, pos, e, width_of_lhs):
    """upper bound of shift amount from its shape: x % C, x & M, constants, guarded variable"""
    e = core.strip_imp(e)
    v = const_val(e)
    if v is not None:
        return v, "constant"
    if e.get("k") == "cast":
        return _ub_simple(fn, pos, e["e"], width_of_lhs)
    if e.get("k") == "bin":
        if e["op"] == "%" and const_val(e["y"]) is not None:
            return const_val(e["y"]) - 1, "x %% %d" % const_val(e["y"])
        if e["op"] == "&":
            for s in (e["x"], e["y"]):
                if const_val(s) is not None:
                    return const_val(s), "mask"
        if e["op"] == "+":
            a, wa = _ub_simple(fn, pos, e["x"], width_of_lhs)
            b, wb = _ub_simple(fn, pos, e["y"], width_of_lhs)
            if a is not None and b is not None:
                return a + b, "%s + %s" % (wa, wb)
        if e["op"] == "*":
            a, wa = _ub_simple(fn, pos, e["x"], width_of_lhs)
            b, wb = _ub_simple(fn, pos, e["y"], width_of_lhs)
            if a is not None and b is not None:
                return a * b, "%s * %s" % (wa, wb)
        if e["op"] == "-" and const_val(e["x"]) is not None:
            # C - x with x >= 0 : at most C (x unsigned)
            return const_val(e["x"]), "C - x"
    if e.get("k") in ("ref", "mem"):
        ub, sound = r_range.upper_bound(fn, pos, e, 64)
        if ub is not None and sound:
            return ub, "guarded <= %d" % ub
    return None, ""


def shift_rule(rep, fn):
    n = 0
    for pos, root, node, parents in fn.nodes():
        if node.get("k") != "bin" or node["op"] not in ("<<", ">>", "<<=", ">>="):
            continue
        amt = core.strip_imp(node["y"])
        if const_val(amt) is not None:
            w = fn.unit.type(node["t"]).get("w") or 64
            if const_val(amt) >= w or const_val(amt) < 0:
                rep.violated("R-SHIFT", fn, "%s %s" % (node["op"], key(amt)), "shift amount below operand width",
                             "constant amount %d, width %d" % (const_val(amt), w), node["ln"])
            continue
        n += 1
        # width of the promoted left operand = result type of the shift
        w = fn.unit.type(node.get("ct", node["t"])).get("w") or fn.unit.type(node["t"]).get("w") or 64
        inst = "%s %s" % (node["op"], key(amt))
        desc = "shift amount %s is below the operand width %d" % (key(amt), w)
        ub, why = _ub_simple(fn, pos, amt, w)
        if ub is None:
            rep.undecided("R-SHIFT", fn, inst, desc, "no bound derivable from modulo/mask/guards", node["ln"])
        elif ub < w:
            rep.proved("R-SHIFT", fn, inst, desc, "amount <= %d (%s)" % (ub, why), node["ln"])
        elif "guarded" in why:
            # a guard exists but admits a boundary value that makes the amount reach the width
            rep.violated("R-SHIFT", fn, inst, desc, "guards admit a value making the amount %d >= width %d (%s)" % (ub, w, why),
                         node["ln"])
        else:
            rep.undecided("R-SHIFT", fn, inst, desc, "shape bound %d (%s) not below width" % (ub, why), node["ln"])
    return n


def wide_shift_rule(rep, fn):
    """R-WSHIFT: the double-word product by 2^s is written as  lo = X << s;  hi = Y >> (W - s)
    in one basic block; both halves must shift the same operand (X == Y)."""
    n = 0
    for bid in fn.reachable_blocks():
        shl, shr = [], []
        for e in fn.blocks[bid].elems:
            if e.get("k") != "bin" or e["op"] != "=":
                continue
            r = core.strip_casts(e["y"])
            if r.get("k") != "bin":
                continue
            if r["op"] == "<<" and const_val(r["y"]) is None:
                shl.append((key(core.strip_casts(r["x"])), key(core.strip_casts(r["y"])), e))
            if r["op"] == ">>":
                a = core.strip_casts(r["y"])
                if a.get("k") == "bin" and a["op"] == "-" and const_val(a["x"]) is not None:
                    w = fn.unit.type(r["t"]).get("w")
                    if const_val(a["x"]) == w:
                        shr.append((key(core.strip_casts(r["x"])), key(core.strip_casts(a["y"])), e))
        for (x, s1, e1) in shl:
            for (y, s2, e2) in shr:
                if s1 != s2:
                    continue
                n += 1
                inst = "%s<<%s" % (x, s1)
                desc = "both halves of the double-word shift by %s use the same operand" % s1
                if x == y:
                    rep.proved("R-WSHIFT", fn, inst, desc, "lines %s/%s" % (e1["ln"], e2["ln"]), e1["ln"])
                else:
                    rep.violated("R-WSHIFT", fn, inst, desc, "low half shifts '%s' (line %s) but high half shifts '%s' (line %s)" % (
                        x, e1["ln"], y, e2["ln"]), e2["ln"])
    return n


WRAP_OPS = {"+", "*", "<<", "-"}

# candidates confirmed wrap-insensitive by reading (one line of reason each)
WIDTH_EXCEPTIONS = {
    ("bn_digit_mult__int", "((1*8)-reg_multiplicand_hi)"): "reg_multiplicand_hi = ctz(x) of a non-zero digit, <= BITS-1, so BITS - hi never wraps",
    ("bn_digit_mult__int", "((2*8)-reg_multiplicand_hi)"): "same as above (16-bit digits)",
    ("bn_div", "(t+1)"): "guarded by t != BN_MAX_DIGIT (proved by R-DIV), so t+1 does not wrap at any width",
}


def width_rule(rep, fn, digit_bits):
    """In narrow-digit builds integer promotion keeps digit arithmetic from wrapping.  Flag comparisons,
    right shifts, divisions and subscripts whose operand is an untruncated wrap-sensitive expression
    over bn_digit_t (not cast back to bn_digit_t and not masked)."""
    if digit_bits >= 32:
        return 0
    u = fn.unit
    n = 0

    def is_digit(e):
        e = core.strip_imp(e)
        return u.type(e["t"])["s"] in ("bn_digit_t", "const bn_digit_t", "register bn_digit_t") or \
            (u.type(e["t"]).get("w") == digit_bits and not u.type(e["t"]).get("sg") and u.type(e["t"])["k"] == "int")

    def wrap_sensitive(e):
        """expression of promoted (int) type computed from digit operands by a wrapping operator"""
        e0 = e
        while e0.get("k") == "cast" and e0.get("imp"):
            e0 = e0["e"]
        if e0.get("k") == "bin" and e0["op"] in WRAP_OPS:
            rt = u.type(e0["t"])
            if rt.get("w") == 32 and rt.get("sg") and (is_digit(e0["x"]) or is_digit(e0["y"])) and \
                    all(u.type(core.strip_imp(s_)["t"]).get("w", 64) <= 32 for s_ in (e0["x"], e0["y"])):
                # BN_MAX_DIGIT - x never wraps
                if e0["op"] == "-" and const_val(e0["x"]) == (1 << digit_bits) - 1:
                    return False
                if const_val(e0) is not None:
                    return False
                return True
        if e0.get("k") == "un" and e0["op"] in ("-", "~") and u.type(e0["t"]).get("w") == 32 and u.type(e0["t"]).get("sg") \
                and is_digit(e0["e"]):
            return True
        return False

    for pos, root, node, parents in fn.nodes():
        k = node.get("k")
        sens = None
        if k == "bin" and node["op"] in ("<", ">", "<=", ">=", "==", "!=", ">>", "/", "%"):
            for side in (node["x"], node["y"]):
                if wrap_sensitive(side):
                    sens = side
        elif k == "sub" and wrap_sensitive(node["i"]):
            sens = node["i"]
        if sens is None:
            continue
        n += 1
        inst = "%s@%s" % (node.get("op", "[]"), key(sens))
        ex = WIDTH_EXCEPTIONS.get((fn.name, key(sens)))
        if ex:
            rep.proved("R-WIDTH", fn, inst, "digit arithmetic used in a comparison/shift/division wraps identically "
                       "at every digit width", "tabled exception: " + ex, node["ln"])
            continue
        rep.violated("R-WIDTH", fn, inst,
                     "digit arithmetic used in a comparison/shift/division wraps identically at every digit width",
                     "in the %d-bit build %s is evaluated in int and does not wrap" % (digit_bits, key(sens)), node["ln"])
    return n


def _cond_norm(fn, obj, v):
    """v is `test ? 1 : 0` (either arm order) where the test is about the value stored into num[0]: 0 exactly when that value is 0"""
    v = v.get("lz") if v.get("k") == "lazy" and v.get("lz") is not None else v
    if v.get("k") != "cond":
        return False
    top = None
    for p2, r2, y, _ in fn.nodes():
        if y.get("k") == "bin" and y["op"] == "=":
            t = core.strip_casts(y["x"])
            if t.get("k") == "sub" and const_val(t["i"]) == 0 and key(core.strip_casts(t["b"])) == "%s->num" % obj["n"]:
                top = core.strip_casts(y["y"])
    if top is None or top.get("k") != "ref":
        return False
    atoms = [n for n, _ in walk(v["c"]) if n.get("k") == "ref" and n.get("id") == top.get("id")]
    if not atoms:
        return False
    try:
        res = {val: r_mpt.eval_expr(v, {id(a): val for a in atoms}) for val in (0, 1, 2, 255, (1 << 64) - 1)}
    except r_mpt.Unknown:
        return False
    return res[0] == 0 and all(res[k] == 1 for k in res if k)


def cap_arg_rule(rep, u, fn, cap=4):
    """R-CAPARG: a digit-level primitive is told how many digits its destination array has.  When a bn-level routine hands it
    X->num, the count it passes is X->count, X->digits (<= count by the representation invariant), or a value that is
    <= X->count whenever the call is reached: the routine is evaluated with X->count = 4 for every X->digits 0..4, other
    operands of 0..6 digits and scalar arguments 0..300, and the count argument is read at the call."""
    import itertools
    from rules import r_stride
    n = 0
    for pos, root, c, ps in fn.calls():
        if not (c.get("fn") or "").startswith("bn_digits_"):
            continue
        cal = u.fn(c["fn"])
        for i, a in enumerate(c["args"][:-1]):
            a0 = core.strip_casts(a)
            if not (a0.get("k") == "mem" and a0.get("f") == "num"):
                continue
            # only destinations: the callee's parameter is a pointer to non-const digits
            if cal is not None and i < len(cal.params):
                pt = u.type(cal.params[i]["t"])
                if pt["k"] == "ptr" and u.type(pt["to"]).get("const"):
                    continue
            if cal is None or i + 1 >= len(cal.params) or u.type(cal.params[i + 1]["t"])["k"] != "int":
                continue                    # the next argument is not a count
            cnt = core.strip_casts(c["args"][i + 1])
            objn = core.strip_casts(a0["b"])
            if objn.get("k") != "ref" or objn.get("dk") != "parm":
                continue
            obj = objn["n"]
            n += 1
            inst = "count-arg:%s(%s)#%d" % (c["fn"], obj, n)
            desc = "%s: the digit count passed with %s->num to %s never exceeds %s->count" % (fn.name, obj, c["fn"], obj)
            if key(cnt) in (obj + "->count", obj + "->digits"):
                rep.proved("R-CAPARG", fn, inst, desc, "passes %s" % key(cnt), c.get("ln"))
                continue
            over = None
            reached = 0
            hidden = None
            for d, od, sc in itertools.product(range(0, cap + 1), (0, 2, cap, cap + 2), (0, 1, cap - 1, cap, cap + 1, 64, 300)):
                pe = r_stride.PE(u)
                pe.wrap = True
                bind = {obj: 0x1000, obj + "->count": cap, obj + "->digits": d, obj + "->num": 0x2000}
                for p in fn.params:
                    if p["n"] == obj:
                        continue
                    if u.type(p["t"])["k"] == "ptr":
                        bind.update({p["n"]: 0x3000, p["n"] + "->digits": od, p["n"] + "->count": 2 * cap, p["n"] + "->num": 0x4000})
                    else:
                        bind[p["n"]] = sc
                for j in range(16 * 2 * cap):                      # every digit width: element j of num[] reads as 1
                    pe.memory[0x2000 + j] = 1
                ev, ret = pe.trace(fn, bind)
                hit = False
                for e, b in ev:
                    if any(x is c for x, _ in walk(e)):
                        hit = True
                        vs = pe.evals(cnt, b, 0)
                        if len(vs) == 1 and isinstance(vs[0][0], int):
                            reached += 1
                            if vs[0][0] > cap:
                                over = over or "with %s->count = %d, %s->digits = %d, other operands of %d digits and scalar arguments %d the call is " \
                                    "reached with count %d: the primitive may write (or report a carry from) digit %d of a %d-digit number" % (
                                        obj, cap, obj, d, od, sc, vs[0][0], vs[0][0] - 1, cap)
                        else:
                            hidden = hidden or "count not evaluable at the call"
                if not hit and isinstance(ret, str) and ev:
                    # the walk stopped early: harmless only if the call can no longer be reached from there
                    last = ev[-1][0]
                    lb = next((b_ for b_ in fn.reachable_blocks() if any(e is last for e in fn.blocks[b_].elems)), None)
                    if lb is None or pos[0] in fn.reach_from([lb]):
                        hidden = hidden or ret
            if over:
                rep.violated("R-CAPARG", fn, inst, desc, over, c.get("ln"))
            elif hidden or not reached:
                rep.undecided("R-CAPARG", fn, inst, desc, hidden or "call never reached on the grid", c.get("ln"))
            else:
                rep.proved("R-CAPARG", fn, inst, desc, "count %s <= %d in all %d grid cases that reach the call" % (key(cnt), cap, reached), c.get("ln"))
    return n


def overwrite_rule(rep, u):
    """R-OVERWRITE: bn_import_* replace the value of their destination: the result may not depend on what the object held
    before ("not on stale storage above their significant digits").  The length helper bn_update_digits__int(bn, k) is
    written for arithmetic results: evaluated with an old length above k and non-zero digits up there it *keeps* the old
    length (those digits belong to the number).  An importer that writes k digits and then calls it - without first
    lowering bn->digits - therefore keeps the previous value's high digits whenever that value was longer."""
    from rules import r_stride
    fh = u.fn("bn_update_digits__int")
    if fh is None:
        raise driver.AnalysisBroken("anchor bn_update_digits__int vanished")
    BN, NUM = 0x1000, 0x2000
    keeps = None
    for old, k in ((5, 1), (5, 3), (2, 1)):
        pe = r_stride.PE(u, call_default={})
        for j in range(0, 8 * 16):
            pe.memory[NUM + j] = 1
        # the callee that recounts: evaluated through its own body (reads the digits just bound)
        ev, ret = pe.trace(fh, {"bn": BN, "bn->count": 8, "bn->digits": old, "bn->num": NUM, "digits": k})
        if isinstance(ret, str):
            keeps = None
            break
        final = None
        for e, b in ev:
            for x, _ in walk(e):
                if x.get("k") == "bin" and x["op"] == "=" and key(core.strip_casts(x["x"])) == "bn->digits":
                    vs = pe.evals(x["y"], b, 0)
                    final = vs[0][0] if len(vs) == 1 else None
        if final is None:
            keeps = None
            break
        keeps = (keeps if keeps is not None else True) and final > k
    n = 0
    for fn in u.function_list:
        if fn.relfile() != BN_H or not fn.has_cfg or not fn.name.startswith("bn_import_"):
            continue
        calls = [(pos, c) for pos, root, c, ps in fn.calls({"bn_update_digits__int"})]
        for pos, c in calls:
            n += 1
            rep.functions.add(fn.name)
            lowered = any(x.get("k") == "bin" and x["op"] == "=" and key(core.strip_casts(x["x"])).endswith("->digits") and fn.pos_dominates(p2, pos)
                          for p2, r2, x, _ in fn.nodes())
            inst = "length-after-import#%d" % n
            desc = "%s: the length of the imported number does not depend on the digits the destination held before" % fn.name
            if keeps is None:
                rep.undecided("R-OVERWRITE", fn, inst, desc, "bn_update_digits__int could not be evaluated", c.get("ln"))
            elif keeps and not lowered:
                rep.violated("R-OVERWRITE", fn, inst, desc, "bn_update_digits__int(bn, k) keeps a previous length above k when the digits up there are "
                             "non-zero, and nothing lowers bn->digits before the call: importing a short value into a number that held a longer "
                             "one leaves the old high digits in the result", c.get("ln"))
            else:
                rep.proved("R-OVERWRITE", fn, inst, desc, "", c.get("ln"))
    return n


def search_budget_rule(rep, u, fname="bn_mod_sqrt"):
    """Tonelli-Shanks needs a quadratic non-residue; the routine searches for one with a trial counter and gives up with the
    'no square root' answer when the counter runs out.  Half of all residues are non-residues, so the search succeeds after
    two trials on average - provided the budget does not depend on how *small the operand* is.  The counter that bounds the
    search loop must be derived from the modulus (or be a constant), not from the operand: with bn_calc_bits(operand) a
    residue such as 4 gets three trials and is reported as having no root."""
    fn = u.fn(fname)
    if fn is None or not fn.has_cfg:
        raise driver.AnalysisBroken("anchor %s vanished" % fname)
    rep.functions.add(fname)
    operand, modulus = fn.params[0]["n"], fn.params[1]["n"]
    # locals that received a copy of the operand / the modulus (bn_assign, bn_assign_init)
    derived = {operand: "operand", modulus: "modulus"}
    changed = True
    while changed:
        changed = False
        for _p, _r, c, _ps in fn.calls({"bn_assign", "bn_assign_init"}):
            d0, s0 = core.base_ref(c["args"][0]), core.base_ref(c["args"][1])
            if d0 is not None and s0 is not None and s0["n"] in derived and d0["n"] not in derived:
                derived[d0["n"]] = derived[s0["n"]]
                changed = True
    n = 0
    for h, body in fn.loops().items():
        legs = [c for pos, _r, c, _ps in fn.calls({"bn_mod_legendre"}) if pos[0] in body]
        if not legs:
            continue
        # the counter decremented in the loop's conditions
        ctr = None
        for b in body:
            c = fn.blocks[b].cond
            if c is None:
                continue
            for x, _ in walk(c):
                st_ = core.step_of(x)
                if st_ is not None and st_[1] == -1:
                    ctr = core.strip_casts(st_[0])
        if ctr is None:
            continue
        n += 1
        defs = [x["y"] for _p, _r, x, _ps in fn.nodes() if x.get("k") == "bin" and x["op"] == "=" and key(core.strip_casts(x["x"])) == key(ctr) and
                fn.dominates(_p[0], h) and _p[0] not in body]
        src = None
        for d in defs[-1:]:
            d0 = core.strip_casts(d)
            if const_val(d0) is not None:
                src = "constant"
            elif d0.get("k") == "call":
                for a in d0.get("args", []):
                    r = core.base_ref(a)
                    if r is not None and r["n"] in derived:
                        src = derived[r["n"]]
        # follow `ctr = f(ctr)` back to the definition before it
        k_ = len(defs)
        while k_ > 1 and core.refs(defs[k_ - 1]) and {r_["n"] for r_ in core.refs(defs[k_ - 1])} == {key(ctr)}:
            k_ -= 1
        defs = defs[:k_]
        # the candidate handed to bn_mod_legendre: seeded with a constant and stepped by one, not derived from the operand
        cand = core.base_ref(legs[0]["args"][0])
        if cand is not None:
            seeds = [c2 for _p, _r, c2, _ps in fn.calls({"bn_assign", "bn_assign_init", "bn_assign_digit"}) if core.base_ref(c2["args"][0]) is not None and
                     core.base_ref(c2["args"][0])["n"] == cand["n"] and fn.dominates(_p[0], h) and _p[0] not in body]
            from_operand = [c2 for c2 in seeds if c2["fn"] != "bn_assign_digit" and core.base_ref(c2["args"][1]) is not None and
                            derived.get(core.base_ref(c2["args"][1])["n"]) == "operand"]
            d2 = "%s: the candidates of the non-residue search do not depend on the operand" % fname
            if from_operand:
                rep.violated("R-SPEC", fn, "search-sequence", d2, "candidate '%s' is seeded with the operand (line %s): for some residues of a small modulus every "
                             "candidate within the budget is a residue and the routine answers 'no square root' (32 mod 97, 4 mod 137)" % (cand["n"], from_operand[0].get("ln")))
            elif seeds:
                rep.proved("R-SPEC", fn, "search-sequence", d2, "candidate '%s' seeded by %s" % (cand["n"], seeds[-1]["fn"]))
            else:
                rep.undecided("R-SPEC", fn, "search-sequence", d2, "seed of candidate '%s' not found" % cand["n"])
        desc = "%s: the trial budget of the non-residue search is derived from the modulus (or constant)" % fname
        if src in ("modulus", "constant"):
            rep.proved("R-SPEC", fn, "search-budget", desc, "counter '%s' from the %s" % (key(ctr), src))
        elif src == "operand":
            rep.violated("R-SPEC", fn, "search-budget", desc, "counter '%s' is set from the size of the operand: a small residue (e.g. 4 modulo the secp224r1 "
                         "prime) gets only a few trials and is reported as having no square root" % key(ctr))
        else:
            rep.undecided("R-SPEC", fn, "search-budget", desc, "origin of counter '%s' not recognised" % key(ctr))
    return n


def low_digit_read_rule(rep, fn):
    """R-DIGITS: num[] holds `digits` significant digits; what lies above is stale storage (a zero has digits == 0 and *no*
    defined num[0]).  A read of X.num[c] with constant c is reached only where X is known to have more than c digits: some
    dominating test of bn_is_zero(X) / X.digits sends the 'zero' outcome away from the read."""
    n = 0
    # locals that hold X->digits (single definition)
    digit_aliases = {}
    for _p, _r, y, _ps in fn.nodes():
        if y.get("k") == "bin" and y["op"] == "=" and core.strip_casts(y["x"]).get("k") == "ref" and core.strip_casts(y["x"]).get("dk") == "local":
            r_ = core.strip_casts(y["y"])
            if r_.get("k") == "mem" and r_.get("f") == "digits":
                digit_aliases.setdefault(key(core.strip_casts(r_["b"])), set()).add(core.strip_casts(y["x"])["id"])
    for pos, root, x, ps in fn.nodes():
        if x.get("k") != "sub" or const_val(x["i"]) is None:
            continue
        b = core.strip_casts(x["b"])
        if not (b.get("k") == "mem" and b.get("f") == "num"):
            continue
        par = ps[-1] if ps else None
        if par is not None and par.get("k") == "bin" and par["op"].endswith("=") and par["op"] not in ("==", "!=", "<=", ">=") and core.strip_casts(par["x"]) is x:
            continue                    # a store
        if any(p_.get("k") == "un" and p_.get("op") == "&" for p_ in ps[-2:]):
            continue                    # address taken (&X.num[0]): a pointer to the digit array, not a read
        obj = core.strip_casts(b["b"])
        okey = key(obj)
        n += 1
        inst = "low-digit-read:%s#%d" % (okey[:20], n)
        desc = "%s: %s is read only where %s is known to be non-zero" % (fn.name, key(x), okey)
        protected = False
        for bid in fn.reachable_blocks():
            c = fn.blocks[bid].cond
            if c is None or len(fn.blocks[bid].succ) != 2:
                continue
            if not (fn.dominates(bid, pos[0]) or bid == pos[0]):
                continue
            atoms = []
            for y, _ in walk(c):
                if y.get("k") == "call" and y.get("fn") in ("bn_is_zero",) and okey.lstrip("&") in key(y["args"][0]).replace("&", "").replace("(", "").replace(")", ""):
                    atoms.append((y, 1))          # value meaning 'is zero'
                if y.get("k") == "mem" and y.get("f") == "digits" and key(core.strip_casts(y["b"])) == okey:
                    atoms.append((y, 0))
                if y.get("k") == "call" and y.get("fn") in ("bn_is_odd", "bn_is_one", "bn_is_pow2") and okey.lstrip("&") in key(y["args"][0]).replace("&", "").replace("(", "").replace(")", ""):
                    atoms.append((y, 0))          # a zero is neither odd nor one: the predicate returns 0 for it
                if y.get("k") == "ref" and y.get("dk") == "local" and y.get("id") in digit_aliases.get(okey, ()):
                    atoms.append((y, 0))
            if not atoms:
                continue
            if bid == pos[0]:
                # same condition: protected if the read's operand is evaluated only after the zero test (short-circuit handled by CFG)
                continue
            try:
                v = r_mpt.eval_expr(c, {id(a): z for a, z in atoms})
            except r_mpt.Unknown:
                continue
            blk = fn.blocks[bid]
            zero_edge = blk.succ[0] if v else blk.succ[1]
            if zero_edge is None or pos[0] not in fn.reach_from([zero_edge], avoid=[bid]):
                protected = True
        if protected:
            rep.proved("R-DIGITS", fn, inst, desc, "", x.get("ln"))
        else:
            rep.violated("R-DIGITS", fn, inst, desc, "no dominating test keeps a zero %s (digits == 0, num[] undefined) away from this read: the value depends on "
                         "stale storage" % okey, x.get("ln"))
    return n


def norm_rule(rep, fn):
    """R-NORM: `digits` is the exact number of significant digits - bn_is_zero, bn_cmp and bn_calc_bits read it as such and
    every arithmetic routine re-derives it with bn_digits_calc_digits.  A store to X->digits through a bn_p parameter is
    therefore one of: 0; the result of bn_digits_calc_digits; the digits of another number (a copy); a value v under a
    dominating test that X->num[v - 1] is not zero; or a constant c with X->num[c - 1] assigned a value that a dominating
    test excludes from zero."""
    n = 0
    for pos, root, x, ps in fn.nodes():
        if not (x.get("k") == "bin" and x["op"] == "="):
            continue
        l = core.strip_casts(x["x"])
        if not (l.get("k") == "mem" and l.get("f") == "digits" and l.get("arrow")):
            continue
        obj = core.strip_casts(l["b"])
        if not (obj.get("k") == "ref" and obj.get("dk") == "parm"):
            continue
        n += 1
        v = core.strip_casts(x["y"])
        inst = "digits-store#%d" % n
        desc = "%s: the value stored in %s->digits is the exact significant-digit count" % (fn.name, obj["n"])
        cv = const_val(v)
        if cv == 0:
            rep.proved("R-NORM", fn, inst, desc, "zero", x.get("ln"))
        elif v.get("k") == "call" and v.get("fn") == "bn_digits_calc_digits":
            rep.proved("R-NORM", fn, inst, desc, "bn_digits_calc_digits", x.get("ln"))
        elif v.get("k") == "mem" and v.get("f") == "digits":
            rep.proved("R-NORM", fn, inst, desc, "copied with the digits of %s" % key(core.strip_casts(v["b"])), x.get("ln"))
        elif v.get("k") in ("cond", "lazy") and _cond_norm(fn, obj, v):
            rep.proved("R-NORM", fn, inst, desc, "1 or 0 according to a test of the digit stored at num[0]", x.get("ln"))
        elif cv is not None:
            # the digit stored at num[c - 1]
            top = None
            for p2, r2, y, _ in fn.nodes():
                if y.get("k") == "bin" and y["op"] == "=":
                    t = core.strip_casts(y["x"])
                    if t.get("k") == "sub" and const_val(t["i"]) == cv - 1 and key(core.strip_casts(t["b"])) == "%s->num" % obj["n"]:
                        top = (p2, core.strip_casts(y["y"]))
            if top is None:
                rep.undecided("R-NORM", fn, inst, desc, "constant %d stored, top digit not assigned here" % cv, x.get("ln"))
                continue
            ok, why = r_range.excludes_zero(fn, top[0], top[1]) if top[1].get("k") in ("ref", "mem") else (const_val(top[1]) not in (None, 0), "constant")
            if ok:
                rep.proved("R-NORM", fn, inst, desc, "num[%d] = %s, %s" % (cv - 1, key(top[1]), why), x.get("ln"))
            else:
                rep.violated("R-NORM", fn, inst, desc, "digits = %d although num[%d] = %s may be zero: the number then has the value 0 but "
                             "bn_is_zero() says no and bn_cmp() with a normalised zero is non-zero" % (cv, cv - 1, key(top[1])), x.get("ln"))
        else:
            # v under a dominating test of num[v - 1] != 0
            want = None
            ok = False
            for bid, c, atom in r_range.guards_for(fn, pos, key(v)):
                for y, _ in walk(c):
                    if y.get("k") == "sub" and key(v) in key(y["i"]) and key(core.strip_casts(y["b"])) == "%s->num" % obj["n"]:
                        s1, k1 = r_mpt.edge_for_value(fn, bid, c, y, 0)
                        if k1 and (s1 is None or pos[0] not in fn.reach_from([s1], avoid=[bid])):
                            ok = True
            if ok:
                rep.proved("R-NORM", fn, inst, desc, "under a test that the top digit is not zero", x.get("ln"))
            else:
                rep.undecided("R-NORM", fn, inst, desc, "stored value %s not recognised as normalised" % key(v), x.get("ln"))
    return n


def run(rep, tier):
    cs = configs(tier)
    specs = [common.hdr_unit(l, "math/big_num.h", d, ("-Werror=implicit-function-declaration",)) for (l, d, w) in cs]
    allw = [common.hdr_unit("bnw:%d:%d" % (w, cc), "math/big_num.h",
                            ["BN_DIGIT_BIT_CNT=%d" % w] + (["BN_CC_MULL_DIV=1"] if cc else []),
                            ("-Werror=implicit-function-declaration",))
            for w in (8, 16, 32, 64, 128) for cc in (0, 1)]
    for (l, ok, e) in driver.syntax_only(allw):
        (rep.proved if ok else rep.violated)("R-CFGX", "", l, "digit-width/multiply configuration parses",
                                             "" if ok else e[-300:], file=BN_H, unit=l)
    us = driver.load_units(specs)
    rep.use_units(us)
    first = True
    n_err = n_ts = n_div = n_sh = n_carry = n_dim = n_fresh = n_norm = n_cap = n_ld = 0
    n_aud = [0, 0, 0, 0, 0, 0, 0]
    n_ck = 0
    for (l, d, w) in cs:
        u = us[l]
        S, _ = r_err.status_functions(u)
        for fn in u.function_list:
            if fn.relfile() != BN_H or fn.name in EXCLUDED or fn.name.endswith("self_test"):
                continue
            rep.functions.add(fn.name)
            a = r_err.check(rep, fn, S, ERR_EXCEPTIONS)
            b = ts_bn.check_scalars(rep, fn)
            c = div_rule(rep, fn)
            e = shift_rule(rep, fn)
            width_rule(rep, fn, w)
            cc = r_carry.check(rep, fn) + r_carry.check_addends(rep, fn)
            wide_shift_rule(rep, fn)
            memsafe.tail_fill_rule(rep, fn)
            memsafe.unguarded_write_rule(rep, fn)
            nn_ = norm_rule(rep, fn)
            nca_ = cap_arg_rule(rep, u, fn)
            nld_ = low_digit_read_rule(rep, fn)
            na_ = [c01_audit.truncating_update_rule(rep, fn), c01_audit.pending_accumulator_rule(rep, fn),
                   c01_audit.carry_out_rule(rep, fn), c01_audit.shift_range_rule(rep, fn), c01_audit.remainder_hi_rule(rep, fn),
                   c01_audit.capacity_vs_length_rule(rep, fn), c01_audit.tristate_status_rule(rep, fn)]
            nck_ = c01_audit.capacity_kept_rule(rep, fn)
            n_top = locals().get("n_top", 0) + c01_audit.top_digit_rule(rep, fn)
            n_cb = locals().get("n_cb", 0) + c01_audit.copy_back_rule(rep, fn)
            if first:
                n_ck += nck_
            if first:
                n_aud = [a_ + b_ for a_, b_ in zip(n_aud, na_)]
            if first:
                n_ld += nld_
            if first:
                n_norm += nn_
                n_cap += nca_
            nf_ = r_loopvar.check(rep, [fn])
            if first:
                n_fresh += nf_
            nd = r_dim.check(rep, u, [fn], ("BN_DIGIT_BITS", "BN_BIT_LEN", "BN_DIGIT_BIT_CNT"), ("BN_DIGIT_SIZE",))
            if first:
                n_dim += nd
            if first:
                n_carry += cc
            if first:
                n_err += a
                n_ts += b
                n_div += c
                n_sh += e
        first = False
    rep.floor("R-ERR call sites in big_num.h", n_err, 220)
    rep.floor("bn_t locals tracked", n_ts, 50)
    rep.floor("variable divisions", n_div, 6)
    rep.floor("variable shifts", n_sh, 15)
    rep.floor("carry/borrow stores", n_carry, 5)
    rep.floor("bit/byte dimensioned expressions", n_dim, 20)
    rep.floor("per-iteration temporaries read in loops", n_fresh, 3)
    rep.floor("stores to ->digits", n_norm, 8)
    rep.floor("importers that set the length", overwrite_rule(rep, us[cs[0][0]]), 2)
    rep.floor("non-residue searches", search_budget_rule(rep, us[cs[0][0]]), 1)
    from props import c03
    c03.reduce_rule(rep, us[cs[0][0]])            # modular reduction: only a value strictly below the modulus is left alone
    rep.floor("destination (num, count) arguments", n_cap, 12)
    rep.floor("constant-index digit reads", n_ld, 3)
    rep.floor("pure-result three-operand routines", alias_rule(rep, us[cs[0][0]]), 2)
    u0 = us[cs[0][0]]
    rep.floor("bn_update_digits__int calls", n_aud[0], 12)
    rep.floor("flushed sub-unit counters", n_aud[1], 2)
    rep.floor("additions into the caller's capacity", n_aud[2], 5)
    rep.floor("forwarded shift counts", n_aud[3], 2)
    rep.floor("square-root start exponents", c01_audit.sqrt_parity_rule(rep, u0), 3)
    rep.floor("binary inverse domain obligations", c01_audit.mod_inv_domain_rule(rep, u0), 2)
    rep.floor("modular power success returns", c01_audit.reduced_exit_rule(rep, u0), 4)
    rep.floor("capacity-vs-length room tests", n_aud[5], 2)
    rep.floor("bn_init / bn_assign_init destinations classified (caller's object vs own temporary)", n_ck, 60)
    rep.floor("Legendre status uses", n_aud[6], 2)
    rep.floor("Euclid inverses (non-default variants)", c01_audit.no_inverse_exit_rule(rep, u0), 3)
    c01_audit.reduce_zero_modulus_rule(rep, u0)
    rep.floor("top-digit reads of functions that accept zero operands", locals().get("n_top", 0), 3)
    c01_audit.halving_odd_modulus_rule(rep, u0)
    rep.floor("results computed in a temporary", locals().get("n_cb", 0), 1)
    rep.floor("subtract-until-smaller loops", c01_audit.zero_modulus_loop_rule(rep, u0), 1)
    c03.reduce_rule(rep, u0, "bn_mod_small")
    rep.floor("high-remainder stores on success paths (first configuration is a portable-divide one)", n_aud[4], 3)
    return driver.finish(
        rep, "other",
        "Static analysis of math/big_num.h in %d configurations (digit widths 8..128, compiler double-width vs portable "
        "multiply/divide, pointer checks on/off). Decided: all configurations build; no bn_* status dropped; bn_t locals "
        "initialised on every path before use; variable divisors excluded from zero; variable shift amounts bounded (or "
        "listed undecided); no promotion-sensitive digit expression in narrow builds; bit counts and byte counts are never added, subtracted or compared with each other and shift amounts are bit counts (R-UNIT dimension check). NOT decided: that results equal "
        "the mathematical values." % len(us),
        ["status functions follow the 0/errno convention", "tabled R-ERR exceptions were confirmed by reading"], TRUSTED)


ALIAS_EXCLUDED = {"bn_egcd": "self-declared broken path, outside the claim (properties.jsonl C01)"}
READERS = ("bn_is_", "bn_cmp", "bn_calc", "bn_get", "bn_ucmp")


def alias_rule(rep, u):
    """permitted aliasing: a three-operand routine whose first parameter is a pure result (dst, a, b) may be called with the
    result object as its first source (in-place gcd).  After the first write through dst - or through a local that was
    initialised from it - the first source is not read any more (it may be the object just overwritten).  Where today's
    tree does not support that pattern for the *second* source, nothing is demanded of it."""
    n = 0
    for fn in u.function_list:
        if fn.relfile() != BN_H or not fn.has_cfg or fn.name in ALIAS_EXCLUDED:
            continue
        bp = [p for p in fn.params if u.type(p["t"])["k"] == "ptr" and u.type(u.type(p["t"])["to"]).get("rec") == "big_num_s"]
        if len(bp) < 3 or fn.params[0] is not bp[0]:
            continue
        dst, a = bp[0], bp[1]
        al = {dst["n"]}
        for pos, root, x, ps in fn.nodes():
            if x.get("k") == "decl":
                for v in x.get("vars", []):
                    if v.get("init") is not None and core.is_ref(core.strip_casts(v["init"]), name=dst["n"]):
                        al.add(v["n"])
        writes, reads_dst, reads_a = [], [], []
        for pos, root, c, ps in fn.calls():
            if not c.get("args") or not c.get("fn"):
                continue
            for i, arg in enumerate(c["args"]):
                x = core.strip_casts(arg)
                if x.get("k") != "ref":
                    continue
                if x["n"] in al:
                    if i == 0 and not c["fn"].startswith(READERS) and c["fn"] != "bn_swap_ptr":
                        writes.append((pos, c))
                    else:
                        reads_dst.append((pos, c))
                if x["n"] == a["n"]:
                    reads_a.append((pos, c))
        if not writes:
            continue
        # pure result: every read of dst is dominated by a write through it
        if any(not any(fn.pos_dominates(wp, rp) for wp, wc in writes) for rp, rc in reads_dst):
            continue
        n += 1
        rep.functions.add(fn.name)
        desc = "%s(%s, %s, ...): once the result has been written, the first source '%s' (which may be the same object) is not read again" % (
            fn.name, dst["n"], a["n"], a["n"])
        bad = None
        for wp, wc in writes:
            for rp, rc in reads_a:
                if rp != wp and fn.pos_dominates(wp, rp):
                    bad = bad or "%s at line %s writes the result object, %s at line %s then reads '%s': called in place (%s == %s) it sees the overwritten value" % (
                        wc["fn"], wc.get("ln"), rc["fn"], rc.get("ln"), a["n"], dst["n"], a["n"])
        (rep.violated if bad else rep.proved)("R-ALIAS", fn, "result-may-be-first-source", desc, bad or "%d writes, %d reads of %s" % (len(writes), len(reads_a), a["n"]))
        # the same for the second source (a symmetric operation called as f(&b, &a, &b))
        if fn.name.startswith("bn_mod_"):
            continue                      # the third object is the modulus: the result cannot sensibly be the modulus
        b2 = bp[2]
        reads_b = [(pos, c) for pos, root, c, ps in fn.calls() if c.get("fn") and any(core.is_ref(core.strip_casts(arg), name=b2["n"]) for arg in c.get("args", []))]
        desc = "%s(%s, %s, %s): once the result has been written, the second source '%s' (which may be the same object) is not read again" % (
            fn.name, dst["n"], a["n"], b2["n"], b2["n"])
        bad = None
        for wp, wc in writes:
            for rp, rc in reads_b:
                if rp != wp and fn.pos_dominates(wp, rp):
                    bad = bad or "%s at line %s writes the result object, %s at line %s then reads '%s': called as f(&b, &a, &b) it sees the overwritten value (gcd(54, 24) = 54)" % (
                        wc["fn"], wc.get("ln"), rc["fn"], rc.get("ln"), b2["n"])
        (rep.violated if bad else rep.proved)("R-ALIAS", fn, "result-may-be-second-source", desc, bad or "%d writes, %d reads of %s" % (len(writes), len(reads_b), b2["n"]))
    return n


def selftest():
    u = fixtures.load("bn_rules.c")
    rep = driver.Report("fixture", "quick")
    for fn in u.function_list:
        if fn.name.startswith("fx_"):
            div_rule(rep, fn)
            shift_rule(rep, fn)
            width_rule(rep, fn, 8)
            r_carry.check(rep, fn)
            wide_shift_rule(rep, fn)
    fixtures.expect(rep, ["fx_div_bad", "fx_div_bad_rewritten", "fx_shift_bad_boundary", "fx_width_bad", "fx_carry_bad", "fx_wshift_bad"],
                    ["fx_div_ok", "fx_div_ok_loop", "fx_div_ok_plus1", "fx_shift_ok_mod", "fx_shift_ok_guard", "fx_width_ok", "fx_carry_ok",
                     "fx_wshift_ok"],
                    "R-DIV/R-SHIFT/R-WIDTH")
