"""C02 — elliptic-curve group law and scalar multiplication.

Decided clauses:
  * R-CFGX  every algorithm/coordinate configuration parses (quick: 14, thorough: all 960) with
            implicit function declarations as errors, so every dispatch macro resolves to a definition
  * R-ERR   no bn_/ec_ status dropped in math/elliptic_curve.h
  * R-TS    bn_t / ec_point_t / ec_point_proj_t locals initialised before use on every path;
            precompute-table elements initialised with the index they are assigned with
  * R-MPT   exceptional cases: x-equal / y-zero / operand-at-infinity tests guard the general formulas,
            scalar 0 short-circuits every multiplication routine before the ladder
  * R-TBL   the 32 built-in curve records (big-integer arithmetic in python): p odd, discriminant != 0,
            G on curve, nG = O, A_M3 flag <=> a = p-3, hex lengths, m = bitlen(p), table sizes
Not decided: that the formulas compute the group law; that all algorithms return identical points.
"""
import itertools
from rules import driver, core, r_err, r_mpt, ts_bn, r_kill
from rules.core import key, const_val, walk
from props import common, fixtures

EC_H = "include/math/elliptic_curve.h"
TRUSTED = ["clang 14 front end + CFG builder", "tool/lcbfacts.cc", "rules/core.py", "python3 big integers"]

FXP = ["BIN", "BIN_PRECALC_DBL", "SLIDING_WIN", "COMB_1T", "COMB_2T"]
UNK = FXP + ["SAME_AS_FXP"]
TWIN = ["BIN", "FXP_UNKPT", "JOINT", "INTER"]


def cfg_defs(proj, mix, rd, fxp, unk, twin):
    d = ["BN_DIGIT_BIT_CNT=64", "BN_BIT_LEN=1408", "BN_CC_MULL_DIV=1"]
    if proj:
        d.append("EC_USE_PROJECTIVE")
    if mix:
        d.append("EC_PROJ_ADD_MIX")
    if rd:
        d.append("EC_PROJ_REPEAT_DOUBLE")
    d.append("EC_PF_FXP_MULT_ALGO=EC_PF_FXP_MULT_ALGO_" + fxp)
    d.append("EC_PF_UNKPT_MULT_ALGO=EC_PF_UNKPT_MULT_ALGO_" + unk)
    d.append("EC_PF_TWIN_MULT_ALGO=EC_PF_TWIN_MULT_ALGO_" + twin)
    return d


def cfg_label(c):
    return "ec:p%d:m%d:r%d:%s:%s:%s" % c


def all_configs():
    return list(itertools.product((0, 1), (0, 1), (0, 1), FXP, UNK, TWIN))


def analysed_configs(tier):
    """configurations whose bodies are analysed (the #ifdef arms inside functions depend on
    PROJECTIVE/ADD_MIX/REPEAT_DOUBLE only; algorithm selection only changes dispatch macros)"""
    cs = []
    for (p, m, r) in itertools.product((0, 1), (0, 1), (0, 1)):
        cs.append((p, m, r, "COMB_2T", "COMB_1T", "JOINT"))
    for f in FXP:
        cs.append((1, 1, 1, f, "SAME_AS_FXP", "FXP_UNKPT"))
        cs.append((0, 0, 0, f, "SAME_AS_FXP", "INTER"))
    if tier == "thorough":
        for f in FXP:
            for t in TWIN:
                for (p, m) in ((0, 0), (1, 0), (1, 1)):
                    cs.append((p, m, 1, f, "BIN", t))
    out = []
    for c in cs:
        if c not in out:
            out.append(c)
    return out


def spec_of(c, werr=False):
    return common.ecdsa_unit(cfg_label(c), cfg_defs(*c))


# ------------------------------------------------------------------ guards

def _is_inf_store(n):
    if n.get("k") == "call" and n.get("fn") == "bn_assign_zero" and n["args"]:
        return key(n["args"][0]).endswith("->z)") or key(n["args"][0]).endswith("->z") or ".z" in key(n["args"][0])
    if n.get("k") == "bin" and n["op"] == "=" and key(n["x"]).endswith("infinity") and const_val(n["y"]) == 1:
        return True
    return False


def inf_stores(fn):
    return [pos for pos, root, n, ps in fn.nodes() if _is_inf_store(n)]


GROUP_OPS = ("_add", "_dbl", "_sub")


import re
_GROUP_RE = re.compile(r"^ec_point_(proj|affine)_(add|sub|dbl|dbl_n)(_mix|_affine)?$")


def ladder_calls(fn):
    res = []
    for pos, root, n, ps in fn.nodes():
        if n.get("k") == "call" and n.get("fn") and _GROUP_RE.match(n["fn"]):
            res.append(pos)
    return res


def _local_arg(a):
    a = core.strip_casts(a)
    return a.get("k") == "un" and a["op"] == "&" and core.strip_casts(a["e"]).get("k") == "ref" and \
        core.strip_casts(a["e"]).get("dk") == "local"


def _param_field(fn, idx, field):
    return r_mpt.addr_of_field(lambda b: r_mpt.is_param(fn, b, idx), field)


def exceptional_guards(rep, u):
    n = 0
    # (function, atom name, atom predicate factory, domain, values that may reach an infinity store)
    def both_local_cmp(n_, ps):
        return n_.get("k") == "call" and n_.get("fn") == "bn_cmp" and len(n_["args"]) == 2 and \
            _local_arg(n_["args"][0]) and _local_arg(n_["args"][1])
    table = [
        ("ec_point_proj_add", "bn_cmp(X1*Z2^2, X2*Z1^2)", lambda fn: both_local_cmp, (-1, 0, 1), (0,)),
        ("ec_point_proj_add", "bn_is_zero(a->y)", lambda fn: r_mpt.call_atom("bn_is_zero", [_param_field(fn, 0, "y")]), (0, 1), (1,)),
        ("ec_point_proj_dbl_n", "bn_is_zero(point->y)", lambda fn: r_mpt.call_atom("bn_is_zero", [_param_field(fn, 0, "y")]), (0, 1), (1,)),
        ("ec_point_proj_add_mix", "bn_is_zero(x-difference)", lambda fn: _first_local_is_zero(fn), (0, 1), (1,)),
        ("ec_point_affine_add", "bn_is_zero(x-difference)", lambda fn: _first_local_is_zero(fn), (0, 1), (1,)),
        ("ec_point_affine_add", "bn_is_zero(a->y)", lambda fn: r_mpt.call_atom("bn_is_zero", [_param_field(fn, 0, "y")]), (0, 1), (1,)),
    ]
    for fname, name, mk, dom, allowed in table:
        fn = u.fn(fname)
        if fn is None:
            continue
        rep.functions.add(fname)
        tg = inf_stores(fn)
        if not tg and not list(r_mpt.branches_with(fn, mk(fn))):
            continue    # arm not compiled in this configuration
        r_mpt.check_guard(rep, fn, name, mk(fn), dom, allowed, targets=tg, target_desc="point-at-infinity store",
                          require_dominance=False, rule="R-MPT")
        n += 1
    # operands at infinity are handled before any field arithmetic
    for fname in ("ec_point_proj_add", "ec_point_proj_add_mix", "ec_point_affine_add"):
        fn = u.fn(fname)
        if fn is None:
            continue
        arith = [pos for pos, root, c, ps in fn.calls() if (c.get("fn") or "").startswith("bn_mod_")]
        if not arith:
            continue    # body not compiled in this configuration
        for idx, pname in ((1, "b"), (0, "a")):
            def inf_atom(n_, ps, fn=fn, idx=idx):
                if n_.get("k") == "mem" and n_["f"] == "infinity" and r_mpt.is_param(fn, n_["b"], idx):
                    return True
                return n_.get("k") == "call" and n_.get("fn") == "bn_is_zero" and _param_field(fn, idx, "z")(n_["args"][0])
            r_mpt.check_guard(rep, fn, "%s at infinity" % pname, inf_atom, (0, 1), (0,), targets=arith,
                              target_desc="field-arithmetic call", require_dominance=True, rule="R-MPT")
            n += 1
    # scalar 0 never enters the ladder
    for fn in u.function_list:
        if fn.relfile() != EC_H or not fn.name.endswith("_mult") or "twin" in fn.name:
            continue
        dpar = [i for i, p in enumerate(fn.params) if p["n"] == "d"]
        lad = ladder_calls(fn)
        if not dpar or not lad:
            continue
        # only routines that test the scalar themselves (wrappers delegate)
        if not list(r_mpt.branches_with(fn, r_mpt.call_atom("bn_is_zero", [lambda a, fn=fn, i=dpar[0]: r_mpt.is_param(fn, a, i)]))):
            rep.violated("R-MPT", fn, "scalar==0", "scalar 0 is tested before the ladder", "no test of bn_is_zero(d)")
            continue
        rep.functions.add(fn.name)
        r_mpt.check_guard(rep, fn, "scalar==0", r_mpt.call_atom("bn_is_zero", [lambda a, fn=fn, i=dpar[0]: r_mpt.is_param(fn, a, i)]),
                          (0, 1), (0,), targets=lad, target_desc="group operation of the ladder",
                          require_dominance=True, rule="R-MPT")
        n += 1
    return n


def jacobian_raw_compare(rep, u):
    """R-JAC: Jacobian coordinates are equivalence-class representatives; an equality decision on a raw
    X/Y/Z of a Jacobian operand (other than a test against zero) is wrong unless Z == 1.
    In every function with a parameter of type ec_point_proj_p no bn_cmp / bn_is_equal takes
    &param->x|y|z directly."""
    n = 0
    for fn in u.function_list:
        if fn.relfile() != EC_H:
            continue
        proj = [i for i, p in enumerate(fn.params) if u.type(p["t"])["k"] == "ptr" and
                u.type(u.type(p["t"])["to"]).get("rec") == "elliptic_curve_point_projective_s"]
        if not proj:
            continue
        n += 1
        bad = None
        for pos, root, c, ps in fn.calls({"bn_cmp", "bn_is_equal", "bn_digits_cmp"}):
            for a in c["args"]:
                a0 = core.strip_casts(a)
                if a0.get("k") == "un" and a0["op"] == "&":
                    m = core.strip_casts(a0["e"])
                    if m.get("k") == "mem" and m["f"] in ("x", "y", "z") and any(r_mpt.is_param(fn, m["b"], i) for i in proj):
                        bad = (c, m)
        desc = "no equality/order decision is taken on a raw coordinate of a Jacobian operand"
        if bad:
            rep.violated("R-JAC", fn, "raw-compare:%s" % key(bad[1]), desc,
                         "%s() at line %s compares %s, which is only meaningful when Z == 1" % (bad[0]["fn"], bad[0]["ln"], key(bad[1])),
                         bad[0]["ln"])
        else:
            rep.proved("R-JAC", fn, "no-raw-compare", desc)
    return n


def _first_local_is_zero(fn):
    """atom: the first bn_is_zero(&<local>) test in the function (difference of x coordinates)"""
    first = [None]
    for bid, c, atom in r_mpt.branches_with(fn, lambda n, ps: n.get("k") == "call" and n.get("fn") == "bn_is_zero"
                                            and _local_arg(n["args"][0])):
        if first[0] is None or bid > first[0][0]:
            first[0] = (bid, id(atom))
    want = first[0][1] if first[0] else None
    return lambda n, ps: id(n) == want


# ------------------------------------------------------------------ curve table (python big integers)

def inv(a, p):
    return pow(a, -1, p)


def ec_add(P, Q, a, p):
    if P is None:
        return Q
    if Q is None:
        return P
    if P[0] == Q[0]:
        if (P[1] + Q[1]) % p == 0:
            return None
        l = (3 * P[0] * P[0] + a) * inv(2 * P[1], p) % p
    else:
        l = (Q[1] - P[1]) * inv(Q[0] - P[0], p) % p
    x = (l * l - P[0] - Q[0]) % p
    return (x, (l * (P[0] - x) - P[1]) % p)


def ec_mul(k, P, a, p):
    R = None
    while k:
        if k & 1:
            R = ec_add(R, P, a, p)
        P = ec_add(P, P, a, p)
        k >>= 1
    return R


def is_probable_prime(n):
    if n < 2:
        return False
    for q in (2, 3, 5, 7, 11, 13, 17, 19, 23, 29, 31, 37):
        if n % q == 0:
            return n == q
    d, s = n - 1, 0
    while d % 2 == 0:
        d //= 2
        s += 1
    for a in (2, 3, 5, 7, 11, 13, 17, 19, 23, 29, 31, 37):
        x = pow(a, d, n)
        if x in (1, n - 1):
            continue
        for _ in range(s - 1):
            x = x * x % n
            if x == n - 1:
                break
        else:
            return False
    return True


CURVES = []


def comb_capacity(rep, u, curves=None):
    """comb multipliers read scalar bits through bn_combo_column_get from tables built for curve->m bits: on every path to
    such a read the scalar is known to have at most m bits.  Decided (a) by partial evaluation of the function's guards
    over d->digits x curve->m (every ordering of digits*BN_DIGIT_BITS vs m), or (b) for a guard of the form bn_cmp(d, n)
    from the curve table: bitlen(n) <= m must hold for every built-in curve."""
    from rules import r_stride
    n = 0
    for fn in u.function_list:
        if fn.relfile() != EC_H or not fn.has_cfg:
            continue
        reads = [(pos, c) for pos, root, c, ps in fn.calls({"bn_combo_column_get"})]
        if not reads:
            continue
        sc = core.strip_casts(reads[0][1]["args"][0])
        if sc.get("k") != "ref" or sc.get("dk") != "parm":
            continue
        d = sc["n"]
        n += 1
        rep.functions.add(fn.name)
        desc = "every comb table read of scalar '%s' in %s is reached only with bitlen(%s) <= curve->m" % (d, fn.name, d)
        bits = 64
        for g in fn.nodes():
            pass
        # digit width of this configuration: sizeof(bn_digit_t) * 8 from the d->num element type
        pe = r_stride.PE(u, call_default={nm: 0 for nm in u.functions if nm.startswith(("ec_point", "bn_assign", "bn_mod"))})
        body = set(fn.reachable_blocks())
        verdict = "no"
        wit = None
        W = _digit_bits(u)
        for k, m in ((1, W - 1), (2, W), (2, W + 1), (3, 2 * W), (3, 2 * W + 32), (3, 3 * W - 1), (9, 521)):
            if k * W <= m:
                continue
            bind = {d: 0x5000, d + "->digits": k, "curve->m": m, "mult_data->wnd_bits": 4, "mult_data->wnd_count": (m + 3) // 4,
                    "mult_data->e_count": ((m + 3) // 4 + 1) // 2, "bn_is_one(%s)" % d: 0, "bn_is_zero(%s)" % d: 0,
                    "point": 0x1000, "mult_data": 0x2000, "curve": 0x3000}
            pos, c = reads[0]
            r, path = pe.reach_stmt(fn, fn.entry, body, bind, pos[0], fn.blocks[pos[0]].elems[pos[1]])
            if r == "sure":
                verdict, wit = "sure", (k, m)
                break
            if r == "unsure":
                verdict, wit = "unsure", (k, m)
        if verdict == "no":
            rep.proved("R-CAP", fn, "comb-capacity", desc, "with %s->digits * %d > curve->m the reads are unreachable (grid over both orderings)" % (d, W))
            continue
        # (b) guard of the form bn_cmp(d, &curve->n)
        cmpn = [c for _, _, c, _ in fn.calls({"bn_cmp"}) if key(core.strip_casts(c["args"][0])) == d and "curve->n" in key(c["args"][1])]
        # (c) guard of the form bn_calc_bits(d) > E in a branch condition: E = curve->m is exactly what is needed,
        #     E = bn_calc_bits(&curve->n) bounds the scalar by bitlen(n) like (b)
        bits_vs = None
        for bid in fn.reachable_blocks():
            cnd = fn.blocks[bid].cond
            if cnd is None:
                continue
            for x, _ in walk(cnd):
                if x.get("k") == "bin" and x["op"] in (">", "<", ">=", "<="):
                    kx, ky = key(core.strip_casts(x["x"])), key(core.strip_casts(x["y"]))
                    for a_, b_ in ((kx, ky), (ky, kx)):
                        if a_ == "bn_calc_bits(%s)" % d:
                            bits_vs = b_
        if bits_vs == "curve->m":
            rep.proved("R-CAP", fn, "comb-capacity", desc, "guarded by bn_calc_bits(%s) against curve->m" % d)
            continue
        if bits_vs is not None and "curve->n" in bits_vs:
            cmpn = cmpn or [bits_vs]
        if cmpn and curves:
            badc = [(nm, nb, m) for nm, nb, m in curves if nb > m]
            if badc:
                rep.violated("R-CAP", fn, "comb-capacity", desc, "the only bound on the scalar is %s <= n, but bitlen(n) > m for %s: bit m of the "
                             "scalar lies outside the table" % (d, ", ".join("%s (%d > %d)" % b for b in badc[:4])))
            else:
                rep.proved("R-CAP", fn, "comb-capacity", desc, "scalar <= n and bitlen(n) <= m for all %d curves" % len(curves))
        elif verdict == "sure":
            rep.violated("R-CAP", fn, "comb-capacity", desc, "with %s->digits=%d (up to %d bits) and curve->m=%d the table read is reached and no test "
                         "on the path bounds the scalar" % (d, wit[0], wit[0] * W, wit[1]))
        else:
            rep.undecided("R-CAP", fn, "comb-capacity", desc, "a guard could not be evaluated")
    return n


def predbl_capacity(rep, u, curves):
    """the doubling-table multipliers (…pre_dbl_mult): the table built by the matching precompute routine has curve->m
    entries (2^i * P for i < m); the evaluator walks the bits of the scalar and reads entry i for every set bit.  Either a
    guard relates the scalar's bit length to curve->m, or every legal scalar (< n) has at most m bits - which the curve
    table decides: bitlen(n) <= m must hold for every built-in curve."""
    n = 0
    for fn in u.function_list:
        if fn.relfile() != EC_H or not fn.has_cfg or "pre_dbl_mult" not in fn.name or "precompute" in fn.name:
            continue
        reads = [x for _p, _r, x, _ps in fn.nodes() if x.get("k") == "sub" and key(core.strip_casts(x["b"])).endswith("pt_arr") and
                 core.strip_casts(x["i"]).get("k") == "ref"]
        if not reads:
            continue
        n += 1
        rep.functions.add(fn.name)
        guard = False
        for bid in fn.reachable_blocks():
            c = fn.blocks[bid].cond
            if c is None:
                continue
            ks = key(c)
            if "curve->m" in ks and ("bits" in ks or "bn_calc_bits" in ks or "->digits" in ks):
                guard = True
        desc = "%s reads table entry i only for i < curve->m (the number of entries the precompute routine fills)" % fn.name
        if guard:
            rep.proved("R-CAP", fn, "doubling-table-capacity", desc, "guarded against curve->m")
            continue
        over = ["%s (%d > %d)" % (nm_, nb_, m_) for nm_, nb_, m_ in (curves or []) if nb_ > m_]
        if not curves:
            rep.undecided("R-CAP", fn, "doubling-table-capacity", desc, "no guard and no curve table")
        elif over:
            rep.violated("R-CAP", fn, "doubling-table-capacity", desc, "no guard relates the scalar to curve->m, and bitlen(n) > m for %s: a scalar with bit m "
                         "set reads the never-initialised entry pt_arr[m]" % ", ".join(over))
        else:
            rep.proved("R-CAP", fn, "doubling-table-capacity", desc, "scalar < n and bitlen(n) <= m for all %d curves" % len(curves))
    return n


def comb_coverage(rep, u):
    """comb evaluators consume the scalar through bn_combo_column_get(d, bit_off, wnd_bits, wnd_count), which reads the bits
    bit_off - j*wnd_count (j < wnd_bits).  Traced (partial evaluation, table reads defaulted) for several table geometries
    whose window width does not divide the curve size: over the whole loop every bit position 0 .. wnd_bits*wnd_count-1
    is read exactly once - a start offset taken from the curve size instead of the table geometry reads every column one or
    two bits too low."""
    from rules import r_stride
    n = 0
    W = _digit_bits(u)
    for fn in u.function_list:
        if fn.relfile() != EC_H or not fn.has_cfg:
            continue
        reads = [c for _, _, c, _ in fn.calls({"bn_combo_column_get"})]
        if not reads:
            continue
        sc = core.strip_casts(reads[0]["args"][0])
        if sc.get("k") != "ref" or sc.get("dk") != "parm":
            continue
        d = sc["n"]
        n += 1
        rep.functions.add(fn.name)
        bad = undec = None
        geos = 0
        for m, wb in ((2 * W + 2, 3), (2 * W + 1, 2), (2 * W + 3, 4), (2 * W + 9, 5), (2 * W, 4)):
            wc = (m + wb - 1) // wb
            pe = r_stride.PE(u, call_default={nm: 0 for nm in u.functions if nm.startswith(("ec_point", "bn_assign", "bn_mod", "bn_combo"))})
            bind = {d: 0x5000, d + "->digits": 2, "curve->m": m, "mult_data->wnd_bits": wb, "mult_data->wnd_count": wc,
                    "mult_data->e_count": (wc + 1) // 2, "bn_is_one(%s)" % d: 0, "bn_is_zero(%s)" % d: 0,
                    "point": 0x1000, "mult_data": 0x2000, "curve": 0x3000}
            ev, ret = pe.trace(fn, bind, max_steps=40000)
            if isinstance(ret, str):
                undec = undec or "m=%d window=%d: %s" % (m, wb, ret)
                continue
            offs = []
            for e, b in ev:
                for x, ps in walk(e):
                    if x.get("k") == "call" and x.get("fn") == "bn_combo_column_get":
                        try:
                            offs.append((r_mpt.eval_expr(x["args"][1], {}, pe._hook(b, {})), r_mpt.eval_expr(x["args"][2], {}, pe._hook(b, {})),
                                         r_mpt.eval_expr(x["args"][3], {}, pe._hook(b, {}))))
                        except (r_mpt.Unknown, KeyError, TypeError):
                            undec = undec or "m=%d window=%d: a bit offset is not computable" % (m, wb)
            geos += 1
            bits = sorted(o - j * c_ for o, b_, c_ in offs for j in range(b_))
            want = list(range(wb * wc))
            if bits != want:
                missing = [x for x in want if x not in bits]
                extra = [x for x in bits if x not in want or bits.count(x) > 1]
                bad = bad or "curve size %d, window %d x %d columns: bit positions %s are never read%s (first offsets %s)" % (
                    m, wb, wc, missing[:6], (", positions %s are read outside the table / twice" % sorted(set(extra))[:6]) if extra else "",
                    [o for o, _b, _c in offs[:3]])
        desc = "%s reads every scalar bit position 0 .. wnd_bits*wnd_count-1 exactly once (table geometry, not curve size, fixes the offsets)" % fn.name
        if bad:
            rep.violated("R-SPEC", fn, "comb-coverage", desc, bad)
        elif undec:
            rep.undecided("R-SPEC", fn, "comb-coverage", desc, undec)
        else:
            rep.proved("R-SPEC", fn, "comb-coverage", desc, "%d geometries" % geos)
    return n


def _digit_bits(u):
    for r in u.records.values():
        for f in r.get("fields", []):
            if f["n"] == "num" and any(g_["n"] == "digits" for g_ in r.get("fields", [])):      # the bignum record, whatever its tag
                t = u.type(f["t"])
                if t["k"] == "arr":
                    return (u.type(t["to"]).get("size") or 8) * 8
    return 64


def curve_table(rep, u):
    g = u.globals.get("ec_curve_str")
    fn = u.fn("ecdsa_curve_from_str")
    if g is None or fn is None:
        raise driver.AnalysisBroken("ec_curve_str / ecdsa_curve_from_str vanished")
    rep.functions.add(fn.name)
    rec = u.records["elliptic_curve_curve_str_s"]
    names = [f["n"] for f in rec["fields"]]
    rows = core.global_value(u, g)
    if not rows or len(rows) < 30:
        raise driver.AnalysisBroken("curve table not evaluable")
    nmax = 0
    for row in rows:
        r = dict(zip(names, row))
        nm = r["name"]
        try:
            p, a, b, gx, gy, n = (int(r[k], 16) for k in ("p", "a", "b", "Gx", "Gy", "n"))
        except (TypeError, ValueError):
            rep.violated("R-TBL", fn, "curve:%s" % nm, "curve record has hexadecimal parameters", "unparsable")
            continue
        CURVES.append((nm, n.bit_length(), r["m"]))
        probs = []
        for k in ("p", "a", "b", "Gx", "Gy"):
            if len(r[k]) != r["num_size"]:
                probs.append("len(%s)=%d != num_size=%d" % (k, len(r[k]), r["num_size"]))
        if len(r["n"]) not in (r["num_size"], r["num_size"] + 2, r["num_size"] + 1):
            probs.append("len(n)")
        if not (p.bit_length() <= r["m"] <= 8 * ((p.bit_length() + 7) // 8)):
            probs.append("m=%d does not cover bitlen(p)=%d within its byte length" % (r["m"], p.bit_length()))
        if r["num_size"] != 2 * ((r["m"] + 7) // 8):
            probs.append("num_size != 2*ceil(m/8)")
        if isinstance(r.get("name_size"), int) and isinstance(nm, str) and r["name_size"] != len(nm):
            probs.append("name_size=%d but the name has %d characters: ecdsa_curve_str_get_by_name() cannot find the curve by its own name and accepts the name cut short" % (r["name_size"], len(nm)))
        if isinstance(r.get("OID_size"), int) and isinstance(r.get("OID"), str) and r["OID_size"] != len(r["OID"]):
            probs.append("OID_size=%d but the OID text has %d characters" % (r["OID_size"], len(r["OID"])))
        if not is_probable_prime(p):
            probs.append("p not prime")
        if not is_probable_prime(n):
            probs.append("n not prime")
        if (4 * a ** 3 + 27 * b * b) % p == 0:
            probs.append("singular curve")
        if (gy * gy - (gx ** 3 + a * gx + b)) % p != 0:
            probs.append("G not on curve")
        elif ec_mul(n, (gx, gy), a, p) is not None:
            probs.append("n*G != O")
        if (r["flags"] & 1) and a != p - 3:
            probs.append("A_M3 flag set but a != p-3")
        if r["algo"] not in (0, 1):
            probs.append("algo")
        if n >= 2 * p + 2 or n.bit_length() > r["m"] + 1:
            probs.append("n out of Hasse range")
        # cofactor (SEC 1, 3.1.1.2.1 step 8): #E = h*n lies in the Hasse interval, so h = floor((sqrt(p)+1)^2 / n)
        if "h" in r:
            from math import isqrt
            lo = -(-(p + 1 - 2 * isqrt(p) - 2) // n)        # ceil((p+1-2*sqrt(p)) / n), with slack for the integer root
            hi = (p + 1 + 2 * isqrt(p) + 2) // n
            cands = [h_ for h_ in range(max(lo, 1), hi + 1)]
            if r["h"] not in cands:
                probs.append("cofactor h=%s, the Hasse interval admits only %s" % (r["h"], cands))
        nmax = max(nmax, r["m"])
        desc = "curve %s: sizes consistent, p,n prime, non-singular, G on curve, nG=O, cofactor, A_M3 flag => a=p-3, m covers bitlen(p)" % nm
        if probs:
            rep.violated("R-TBL", fn, "curve:%s" % nm, desc, "; ".join(probs))
        else:
            rep.proved("R-TBL", fn, "curve:%s" % nm, desc, "m=%d" % r["m"])
    rep.floor("curve records", len(rows), 30)
    # table capacities
    pd = u.records.get("elliptic_curve_pf_fpx_pre_dbl_mult_data_s")
    if pd:
        cap = u.type(pd["fields"][0]["t"]).get("n")
        (rep.proved if cap >= nmax else rep.violated)(
            "R-TBL", fn, "PRECALC_DBL_SIZE", "precomputed-doubles table holds one point per bit of the largest curve",
            "capacity %s, largest m %d" % (cap, nmax))
    bn = u.records["big_num_s"]
    digits_bits = u.type(bn["fields"][2]["t"])["size"] * 8
    need = 2 * nmax + 64
    (rep.proved if digits_bits >= need else rep.undecided)(
        "R-TBL", fn, "BN_BIT_LEN", "bn_t capacity >= 2*m + one digit for the largest curve (default BN_BIT_LEN)",
        "capacity %d bits, need %d" % (digits_bits, need))
    return len(rows)


def flag_rule(rep, u, fields=("x",), flag="infinity"):
    """R-FLAG: an affine point is (x, y, infinity).  A routine that stores a new x into the ec_point_t its parameter points to
    replaces the point, so on every path to a success return on which it did so it also stores the flag (directly, or by
    handing the whole point as destination to a routine that does): otherwise the object keeps the flag of the point it
    held before, and a finite result is read as the point at infinity (or the reverse).  Forward dataflow over the four
    (x written, flag written) states."""
    # routines that store the flag of the point handed as parameter i (fixed point over direct stores)
    sets_flag = {}
    changed = True

    def pt_params(fn):
        out = []
        for i, p in enumerate(fn.params):
            t = u.type(p["t"])
            if t["k"] != "ptr":
                continue
            to = u.type(t["to"])
            rec = next((r for r in u.records.values() if ("struct " + r["n"]) == (to.get("c") or "").replace("const ", "").strip()), None)
            if rec is not None and any(f["n"] == flag for f in rec["fields"]) and any(f["n"] == fields[0] for f in rec["fields"]):
                out.append((i, p["n"]))
        return out

    def field_of(e, pn):
        e = core.strip_casts(e)
        if e is not None and e.get("k") == "un" and e.get("op") == "&":
            e = core.strip_casts(e["e"])
        if e is not None and e.get("k") == "mem" and core.strip_casts(e["b"]).get("k") == "ref" and core.strip_casts(e["b"]).get("n") == pn:
            return e["f"]
        return None

    def effects(fn, pn, elem):
        wx = wi = False
        for x, _ in walk(elem):
            if x.get("k") == "bin" and x["op"] == "=":
                f = field_of(x["x"], pn)
                wi |= f == flag
            if x.get("k") == "call" and x.get("args"):
                f = field_of(x["args"][0], pn)
                if f in fields and (x.get("fn") or "").startswith("bn_") and not x["fn"].startswith(("bn_cmp", "bn_is_", "bn_calc", "bn_export", "bn_get")):
                    wx = True
                for i, a in enumerate(x["args"]):
                    a0 = core.strip_casts(a)
                    if a0.get("k") == "ref" and a0.get("n") == pn and i in sets_flag.get(x.get("fn"), ()):
                        wi = True
                        wx = False if not wx else wx
        return wx, wi
    fns = [f for f in u.function_list if f.relfile() == EC_H and f.has_cfg and not f.name.endswith("self_test")]
    while changed:
        changed = False
        for fn in fns:
            for i, pn in pt_params(fn):
                if i in sets_flag.get(fn.name, set()):
                    continue
                # must-write on every success path (simple: some store dominates every success return)
                succ = r_mpt.success_returns(fn)
                sites = [pos for pos, root, x, ps in fn.nodes() if effects(fn, pn, x)[1] and x.get("k") in ("bin", "call")]
                if succ and sites and all(any(fn.pos_dominates(sp, r) for sp in sites) for r in succ):
                    sets_flag.setdefault(fn.name, set()).add(i)
                    changed = True
    n = 0
    for fn in fns:
        for i, pn in pt_params(fn):
            if not any(effects(fn, pn, x)[0] for _p, _r, x, _ps in fn.nodes() if x.get("k") == "call"):
                continue
            n += 1
            rep.functions.add(fn.name)
            # forward dataflow: set of (wx, wi) pairs possible at block entry
            IN = {fn.entry: {(False, False)}}
            work = [fn.entry]
            bad = None
            while work:
                b = work.pop()
                st = set(IN[b])
                for e in fn.blocks[b].elems:
                    wx, wi = effects(fn, pn, e)
                    if wx or wi:
                        st = {(a or wx, c or wi) for a, c in st}
                    if e.get("k") == "ret" and const_val(e.get("e")) == 0 and core.strip_imp(e.get("e")).get("k") != "ref":
                        if (True, False) in st:
                            bad = bad or e.get("ln")
                for s_ in fn.blocks[b].rsucc():
                    if not st <= IN.get(s_, set()):
                        IN[s_] = IN.get(s_, set()) | st
                        work.append(s_)
            desc = "%s: every success path that stores a new %s->x also stores %s->%s" % (fn.name, pn, pn, flag)
            if bad:
                rep.violated("R-FLAG", fn, "flag:%s" % pn, desc, "the success return at line %s is reached with x replaced and the flag untouched: "
                             "the object keeps the flag of the point it held before" % bad, bad)
            else:
                rep.proved("R-FLAG", fn, "flag:%s" % pn, desc, "forward dataflow over (x written, flag written)")
    return n


def dbl_n_identity(rep, u, fname="ec_point_proj_dbl_n"):
    """2^0 * P = P for every P, also for the point of order two (y = 0): the `n == 0` exit comes before anything is written
    through the point (the y == 0 -> infinity shortcut writes z)."""
    fn = u.fn(fname)
    if fn is None or not fn.has_cfg:
        return 0
    pt, nn = fn.params[0]["n"], fn.params[1]["n"]
    zero_tests = []
    for bid in fn.reachable_blocks():
        cnd = fn.blocks[bid].cond
        if cnd is None:
            continue
        for y, _ in walk(cnd):
            if y.get("k") == "bin" and y["op"] in ("==", "!="):
                a, b = core.strip_casts(y["x"]), core.strip_casts(y["y"])
                if (core.is_ref(a, name=nn) and const_val(b) == 0) or (core.is_ref(b, name=nn) and const_val(a) == 0):
                    zero_tests.append(bid)
    writes = []
    for pos, root, c, ps in fn.calls():
        if (c.get("fn") or "").startswith(("bn_assign", "bn_mod", "bn_add", "bn_sub", "bn_mult", "ec_point")) and c.get("args"):
            b0 = core.base_ref(c["args"][0])
            if b0 is not None and b0["n"] == pt and core.strip_casts(c["args"][0]).get("k") != "ref":
                writes.append((pos, c))
    if not writes:
        return 0
    rep.functions.add(fname)
    first_bad = [c for pos, c in writes if not any(fn.dominates(z, pos[0]) and z != pos[0] for z in zero_tests)]
    desc = "%s: n = 0 leaves the point untouched (the n == 0 exit dominates every write through the point)" % fname
    if not zero_tests:
        rep.undecided("R-MPT", fn, "dbl-zero-times", desc, "no test of n against 0 (the loop form handles it)")
    elif first_bad:
        rep.violated("R-MPT", fn, "dbl-zero-times", desc, "%s at line %s writes before n is tested: dbl_n(T, 0) of the order-2 point (y = 0) returns infinity instead of T" % (
            first_bad[0]["fn"], first_bad[0].get("ln")), first_bad[0].get("ln"))
    else:
        rep.proved("R-MPT", fn, "dbl-zero-times", desc, "%d writes, all behind the n == 0 exit" % len(writes))
    return 1



def naf_headroom_rule(rep, u, fname="bn_calc_naf"):
    """The NAF recoding adds |item| < 2^(w-1) to its working copy whenever the low window is 'negative'; for a scalar that
    fills its object (2^m - 1 in an m-bit object; every scalar of the top window on a small curve) that addition carries
    out of a copy of the same capacity.  The working copy therefore has at least one digit more than the scalar's
    significant digits.  Evaluated: the capacity expression of the copy's initialiser with digits = count = 4."""
    from rules import r_mpt
    fn = u.fn(fname)
    if fn is None or not fn.has_cfg:
        raise driver.AnalysisBroken("anchor %s vanished" % fname)
    rep.functions.add(fname)
    adds = [c for _p, _r, c, _ps in fn.calls({"bn_add_digit"})]
    if not adds:
        raise driver.AnalysisBroken("%s: the recoding addition not found" % fname)
    tgt = core.base_ref(adds[0]["args"][0])
    src = fn.params[0]
    desc = "%s: the working copy %s has a digit of head room over the scalar" % (fname, tgt["n"] if tgt else "?")
    if tgt is None or tgt.get("dk") != "local":
        rep.violated("R-CAP", fn, "naf-head-room", desc, "the recoding adds into %s, not into a local copy" % key(adds[0]["args"][0]))
        return 1
    D = 4
    cap = None
    how = None
    for _p, _r, c, _ps in fn.calls({"bn_assign_init", "bn_init"}):
        b = core.base_ref(c["args"][0])
        if b is None or b.get("id") != tgt["id"]:
            continue
        if c["fn"] == "bn_assign_init":
            cap, how = D, "bn_assign_init: the capacity of the scalar's object"
        else:
            env = {}
            for y, _ in walk(c["args"][1]):
                if y.get("k") == "mem" and y["f"] in ("digits", "count") and core.base_ref(y) is not None and core.base_ref(y).get("id") == src["id"]:
                    env[id(y)] = D
            try:
                bits = r_mpt.eval_expr(c["args"][1], env)
                dbits = None
                for y, _ in walk(c["args"][1]):
                    if "BN_DIGIT_BITS" in core.macros(y) and const_val(y) is not None:
                        dbits = const_val(y)
                if dbits:
                    cap, how = bits // dbits, "bn_init(%s)" % key(c["args"][1])[:50]
            except r_mpt.Unknown:
                pass
    if cap is None:
        rep.undecided("R-CAP", fn, "naf-head-room", desc, "capacity of the working copy not evaluated")
    elif cap >= D + 1:
        rep.proved("R-CAP", fn, "naf-head-room", desc, "%s = %d digits for a %d digit scalar" % (how, cap, D))
    else:
        rep.violated("R-CAP", fn, "naf-head-room", desc, "%s: for k = 2^m - 1 in an m-bit object (and 0xf9..0xff on a curve over F_251 with 8-bit digits) the first negative "
                     "item carries out, the interleaved twin multiplication returns EOVERFLOW where the JSF and binary ones return the point" % how)
    return 1

def run(rep, tier):
    # (a) configuration witnesses
    cfgs = all_configs() if tier == "thorough" else analysed_configs("quick")
    specs = []
    for c in cfgs:
        s = spec_of(c)
        s.cflags = ("-Werror=implicit-function-declaration", "-Werror=incompatible-pointer-types",
                    "-Werror=int-conversion")
        specs.append(s)
    res = driver.syntax_only(specs)
    fnref = None
    bad = [(l, e) for (l, ok, e) in res if not ok]
    rep.extra["configurations_compiled"] = len(res)
    for (l, ok, e) in res:
        if ok:
            rep.proved("R-CFGX", "", l, "configuration parses and every dispatch macro resolves to a declared function",
                       "clang -fsyntax-only -Werror=implicit-function-declaration", file=EC_H, unit=l)
        else:
            rep.violated("R-CFGX", "", l, "configuration parses and every dispatch macro resolves to a declared function",
                         e.strip().splitlines()[-3:] and " | ".join(e.strip().splitlines()[-3:]), file=EC_H, unit=l)
    rep.floor("EC configurations compiled", len(res), 14 if tier == "quick" else 960)
    # negative witness: every table type is dimensioned with the *fixed-point* window macro, and the unknown-point multipliers
    # fill them according to their own window.  A configuration whose unknown-point window is wider must be refused by the
    # header (a 7-entry on-stack table would be filled with 15 points), i.e. must not compile.
    wide = [common.ecdsa_unit("ecdsa:unkpt-win4:fxp-win3", ("EC_USE_PROJECTIVE=1", "EC_PF_FXP_MULT_WIN_BITS=3", "EC_PF_UNKPT_MULT_WIN_BITS=4",
                                                             "EC_PF_UNKPT_MULT_ALGO=EC_PF_UNKPT_MULT_ALGO_COMB_1T"))]
    for (l, ok, e) in driver.syntax_only(wide):
        desc = "a configuration with EC_PF_UNKPT_MULT_WIN_BITS > EC_PF_FXP_MULT_WIN_BITS is rejected at compile time"
        if ok:
            rep.violated("R-CFGX", "", "window-mismatch-refused", desc, "it compiles: ec_pt_unkpt_mult_data_t has (1 << 3) - 1 = 7 entries and "
                         "ec_point_unknown_pt_mult precomputes (1 << 4) - 1 = 15 points into it (stack buffer overflow)", file=EC_H, unit=l)
        else:
            rep.proved("R-CFGX", "", "window-mismatch-refused", desc, "compilation stops: " + (e.strip().splitlines()[-1][:100] if e.strip() else ""), file=EC_H, unit=l)
    # a sliding window is cut out of ONE digit (BN_DIGIT_BITS / wnd_bits windows per digit): a window wider than a digit makes
    # the loop run zero times and every scalar >= 2 gives infinity.  Such a configuration must not compile.
    slw = [common.ecdsa_unit("ecdsa:w8:slwin16", ("BN_DIGIT_BIT_CNT=8", "BN_BIT_LEN=1408", "EC_PF_FXP_MULT_ALGO=EC_PF_FXP_MULT_ALGO_SLIDING_WIN",
                                                   "EC_PF_FXP_MULT_WIN_BITS=16"))]
    for (l, ok, e) in driver.syntax_only(slw):
        desc = "a sliding window wider than a bignum digit is rejected at compile time"
        if ok:
            rep.violated("R-CFGX", "", "slwin-wider-than-digit-refused", desc, "it compiles: with 8-bit digits and a 16-bit window BN_DIGIT_BITS / wnd_bits = 0 "
                         "windows are read per digit and ec_point_mult_bp(n - 5) returns infinity", file=EC_H, unit=l)
        else:
            rep.proved("R-CFGX", "", "slwin-wider-than-digit-refused", desc, "compilation stops: " + (e.strip().splitlines()[-1][:100] if e.strip() else ""), file=EC_H, unit=l)
    # the comb column index has wnd_bits bits: the type that carries it (result of bn_combo_column_get, the local it is
    # assigned to) is at least that wide in a configuration whose window exceeds the digit (8-bit digits, window 9 - the
    # window tests/ecdsa/main.c uses)
    uw = driver.load_units([common.ecdsa_unit("ecdsa:w8:comb9", ("BN_DIGIT_BIT_CNT=8", "BN_BIT_LEN=1408", "EC_PF_FXP_MULT_ALGO=EC_PF_FXP_MULT_ALGO_COMB_2T",
                                                                  "EC_PF_FXP_MULT_WIN_BITS=9"))])["ecdsa:w8:comb9"]
    nwi = 0
    fcol = uw.fn("bn_combo_column_get")
    if fcol is None:
        raise driver.AnalysisBroken("bn_combo_column_get vanished")
    for fn in uw.function_list:
        if fn.relfile() != EC_H or not fn.has_cfg:
            continue
        ids = core.result_locals(fn, {"bn_combo_column_get"})
        if not ids:
            continue
        widths = []
        for pos, root, x, ps in fn.nodes():
            if x.get("k") == "ref" and x.get("id") in ids and "t" in x:
                widths.append((uw.type(x["t"]).get("size") or 0) * 8)
        widths.append((uw.type(fcol.ret).get("size") or 0) * 8)
        nwi += 1
        rep.functions.add(fn.name)
        desc = "%s: the comb column index (9 bits in this configuration) is carried in a type of at least 9 bits" % fn.name
        if min(widths) >= 9:
            rep.proved("R-WIDTH", fn, "comb-index-width", desc, "%d bits" % min(widths), unit=uw.label)
        else:
            rep.violated("R-WIDTH", fn, "comb-index-width", desc, "carried in %d bits (bn_digit_t): with 8-bit digits and the window of 9 the top index bit is lost - "
                         "n*G comes back as a finite point" % min(widths), unit=uw.label)
    rep.floor("comb index carriers (8-bit digits, window 9)", nwi, 2)
    # (b) body analysis
    acfgs = analysed_configs(tier)
    aspecs = [spec_of(c) for c in acfgs]
    us = driver.load_units(aspecs)
    rep.use_units(us)
    n_err = n_ts = n_arr = n_g = n_kill = 0
    first = True
    for s in aspecs:
        u = us[s.label]
        S, _ = r_err.status_functions(u)
        for fn in u.function_list:
            if fn.relfile() != EC_H or fn.name.endswith("self_test"):
                continue
            rep.functions.add(fn.name)
            a = r_err.check(rep, fn, S)
            b = ts_bn.check_scalars(rep, fn)
            c = ts_bn.check_arrays(rep, fn)
            if first:
                n_err += a
                n_ts += b
                n_arr += c
        g = exceptional_guards(rep, u)
        jacobian_raw_compare(rep, u)
        nk = r_kill.check(rep, u, [f for f in u.function_list if f.relfile() == EC_H and not f.name.endswith("self_test")])
        nfl = flag_rule(rep, u)
        if first:
            n_kill = nk
            n_flag = nfl
        if first:
            n_g = g
        first = False
    rep.floor("R-ERR call sites in elliptic_curve.h", n_err, 400)
    rep.floor("bn/point locals tracked", n_ts, 40)
    rep.floor("table-element destinations", n_arr, 20)
    rep.floor("exceptional-case guards", n_g, 8)
    rep.floor("field stores into local points", n_kill, 1)
    rep.floor("point outputs with coordinate stores", n_flag, 3)
    del CURVES[:]
    curve_table(rep, us[aspecs[0].label])
    ncap = npd = 0
    ncov = nform = 0
    from props import c02_formulas
    for s_ in aspecs:
        ncap += comb_capacity(rep, us[s_.label], list(CURVES))
        npd += predbl_capacity(rep, us[s_.label], list(CURVES))
        ncov += comb_coverage(rep, us[s_.label])
        nform += c02_formulas.check(rep, us[s_.label], EC_H)
    rep.floor("group-law formula instances (polynomial domain)", nform, 30)
    rep.floor("comb multipliers", ncap, 2)
    rep.floor("doubling-table multipliers", npd, 1)
    rep.floor("comb evaluators (coverage)", ncov, 2)
    rep.floor("n-fold doubling identity", sum(dbl_n_identity(rep, us[s_.label]) for s_ in aspecs) and 1, 1)
    naf_headroom_rule(rep, us[aspecs[0].label])
    return driver.finish(
        rep, "other",
        "Static analysis of math/elliptic_curve.h: %d configurations compiled as witnesses, %d analysed in depth. "
        "Decided: every configuration builds and dispatches to declared functions; no status dropped; locals and "
        "precompute-table elements initialised before use (element index agreement); exceptional-case tests guard "
        "the general formulas with the right polarity and scalar 0 never enters a ladder; a flag copied into a local point is not wiped by a later initialiser (R-KILL); all built-in curve records "
        "are arithmetically consistent (checked with python big integers); the Jacobian doubling (single, repeated, both a-branches), "
        "addition and mixed-addition routines compute the textbook formulas, compared projectively as polynomials in the input "
        "coordinates (R-POLY). NOT decided: the affine formulas (they need a modular inverse), the exceptional-case handling beyond "
        "the guards above, and that the scalar-multiplication algorithms agree on the resulting point." % (len(res), len(us)),
        ["python big-integer arithmetic and Miller-Rabin with 12 bases for the curve records",
         "bn_cmp in {-1,0,1}; bn_is_zero/bn_is_one in {0,1}"], TRUSTED)


def selftest():
    u = fixtures.load("kill.c")
    rep = driver.Report("fixture", "quick")
    r_kill.check(rep, u, [f for f in u.function_list if f.name.startswith("fx_sub")])
    fixtures.expect(rep, ["fx_sub_bad"], ["fx_sub_ok", "fx_sub_read_ok"], "R-KILL")
    u = fixtures.load("ts_bn.c")
    rep = driver.Report("fixture", "quick")
    for fn in u.function_list:
        if fn.name.startswith("fx_"):
            ts_bn.check_scalars(rep, fn)
            ts_bn.check_arrays(rep, fn)
    fixtures.expect(rep, ["fx_bad_uninit", "fx_bad_one_path", "fx_bad_elem_index", "fx_bad_point_field"],
                    ["fx_ok", "fx_ok_goto", "fx_ok_elem", "fx_ok_loop_range", "fx_ok_point"], "R-TS bn")
    rep = driver.Report("fixture", "quick")
    u.function_list = [f for f in u.function_list]
    import types
    saved = [(f, f.file) for f in u.function_list]
    for f in u.function_list:
        if f.name.startswith("fx_jac"):
            f.file = core.REPO + "/" + EC_H
    jacobian_raw_compare(rep, u)
    for f, fl in saved:
        f.file = fl
    fixtures.expect(rep, ["fx_jac_bad"], ["fx_jac_ok"], "R-JAC")
