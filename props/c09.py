def byte_api(rep, us, prop):
    pass
