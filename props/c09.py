"""C09 — key encoding, validation and the byte-string API of crypto/dsa/ecdsa.h.

Decided clauses (structure, not values):
  * R-BOUND   every read of the *_be/*_le entry points through a pointer whose size the caller passed stays inside that
              size (relational abstract interpretation with the contracts bn_import_*_bin(bn, buf, len) reads len bytes,
              bn_export_*_bin(bn, fl, buf, len, ret) writes len bytes).  An unproved read is reported as a violation only
              when a finite instantiation of the sizes drives the function's own tests to the call with len > size.
  * R-CODEC   writer/reader agreement of the public key encodings: for every layout the exporter can emit
              (infinity / separate / packed / compressed, parity 0/1) the importer of the same byte order, given the
              emitted size and prefix, succeeds and reads x and y from the offsets and lengths the exporter wrote them to,
              passes the exporter's parity to ec_point_restore_y_by_x, or sets the neutral element; the reported size equals
              the highest byte written; unknown prefixes and sizes are rejected.
  * R-MPT     with validation enabled every accepting path of the importer passes ec_point_check_as_pub_key (directly,
              or inside ec_point_restore_y_by_x whose own success paths all pass it) or is the neutral-element arm;
              ec_point_check_as_pub_key passes both the on-curve and the order check.
  * R-PARITY  ec_point_restore_y_by_x keeps the computed root iff its parity equals the requested one, otherwise p - root.
  * R-TS      every accepting non-neutral arm of the importer defines point->infinity = 0 (the point may be reused).
  * R-SIB     each *_be entry point and its *_le sibling are the same program up to the byte order of the bignum codec.
Not decided: that the group arithmetic behind ecdsa_key_gen / ecdsa_dh computes the reference values (C02's clauses cover
its structure), symmetry of Diffie-Hellman as a numerical fact, correctness of bn_mod_sqrt.
"""
import itertools
from rules import driver, core, absint, r_mpt, r_stride, r_err, r_poly
from rules.core import key, walk, strip_casts, const_val
from props import common, fixtures

ECDSA_H = "include/crypto/dsa/ecdsa.h"
EC_H = "include/math/elliptic_curve.h"
TRUSTED = ["clang 14 front end + CFG builder", "tool/lcbfacts.cc", "rules/absint.py", "rules/r_stride.py partial evaluator", "python3"]

VALIDATORS = ("ec_point_check_as_pub_key", "ec_point_restore_y_by_x")
CALLEE_PAIRS = {
    "bn_import_be_bin": [(1, 2, "r")], "bn_import_le_bin": [(1, 2, "r")],
    "bn_export_be_bin": [(2, 3, "w")], "bn_export_le_bin": [(2, 3, "w")],
    "ecdsa_pub_key_import_be": [(1, 3, "r")], "ecdsa_pub_key_import_le": [(1, 3, "r")],
}
# size parameter that bounds a pointer parameter when it is passed by value (inputs)
PAIRS = {"sign_r": "sign_size", "sign_s": "sign_size", "pub_key_x": "pub_key_size", "pub_key_y": "pub_key_size"}


def byte_fns(u):
    return [fn for fn in u.function_list if fn.relfile() == ECDSA_H and fn.name.endswith(("_be", "_le")) and fn.has_cfg]


def pairs_of(fn):
    u = fn.unit
    ps = absint.guess_pairs(fn)
    names = {p["n"]: p for p in fn.params}
    have = {p[0] for p in ps}
    for a, b in PAIRS.items():
        if a in names and b in names and a not in have and u.type(names[b]["t"])["k"] == "int":
            ps.append((a, b, 1))
    return ps


# ------------------------------------------------------------------ R-BOUND

def _site_call(stmt, what):
    """the call node inside stmt that the obligation text names"""
    name = what.split("(")[0]
    for x, _ in walk(stmt):
        if x.get("k") == "call" and x.get("fn") == name:
            return x
    return None


def refute(pe, fn, pos, what, pairs):
    """finite instantiation: sizes and curve->m from a small domain; the function's own branches are folded with those
    values (calls returning a status are assumed to succeed); a witness reaches the call with offset+len > size"""
    b, i = pos
    stmt = fn.blocks[b].elems[i]
    call = _site_call(stmt, what)
    if call is None or call["fn"] not in CALLEE_PAIRS:
        return None
    u = fn.unit
    ints = [p["n"] for p in fn.params if u.type(p["t"])["k"] in ("int", "enum")]
    ptrs = [p["n"] for p in fn.params if u.type(p["t"])["k"] == "ptr"]
    size_of = {p[0]: p[1] for p in pairs}
    base = {n: 4096 * (j + 1) for j, n in enumerate(ptrs)}
    body = set(fn.reachable_blocks())
    dom = (1, 2, 3, 4, 5, 7)
    for m in (8, 16, 24):
        for vals in itertools.product(dom, repeat=len(ints)):
            bind = dict(base)
            bind.update(dict(zip(ints, vals)))
            bind["curve->m"] = m
            r, path = pe.reach_stmt(fn, fn.entry, body, bind, b, stmt)
            if r != "sure":
                continue
            nb = pe.last_bind
            for (pi, li, rw) in CALLEE_PAIRS[call["fn"]]:
                try:
                    pv = r_mpt.eval_expr(call["args"][pi], {}, pe._hook(nb, {}))
                    lv = r_mpt.eval_expr(call["args"][li], {}, pe._hook(nb, {}))
                except r_mpt.Unknown:
                    continue
                owner = [n for n in ptrs if base[n] <= pv < base[n] + 4096]
                if not owner or owner[0] not in size_of:
                    continue
                cap = nb.get(size_of[owner[0]])
                if not isinstance(cap, int):
                    continue
                off = pv - base[owner[0]]
                if off + lv > cap:
                    return "with %s and curve->m=%d the call at line %s %s %d bytes at offset %d of %s[%s=%d]" % (
                        ", ".join("%s=%d" % kv for kv in zip(ints, vals)), m, stmt.get("ln"),
                        "reads" if rw == "r" else "writes", lv, off, owner[0], size_of[owner[0]], cap)
    return None


def bound_rule(rep, u, fns):
    pe = r_stride.PE(u, call_default=status_defaults(u))
    n = 0
    for fn in fns:
        ps = pairs_of(fn)
        if not ps:
            continue
        rep.functions.add(fn.name)
        an = absint.Analysis(fn, pairs=ps, callee_pairs=CALLEE_PAIRS).run()
        per = {}
        for o in an.obligations:
            if o["kind"] == "ret":
                continue
            n += 1
            basek = "%s:%s" % ("write" if o["kind"] == "w" else "read", o["what"])
            per[basek] = per.get(basek, 0) + 1
            inst = "%s@%s" % (basek, o["buf"]) + ("" if per[basek] == 1 else "#%d" % per[basek])
            desc = "%s of %s stays inside %s" % ("write" if o["kind"] == "w" else "read", o["what"], o["buf"])
            if o["status"] == "proved":
                rep.proved("R-BOUND", fn, inst, desc, o["detail"], o["ln"])
            elif o["status"] == "alarm":
                rep.violated("R-BOUND", fn, inst, desc, o["detail"], o["ln"])
            else:
                w = refute(pe, fn, o["pos"], o["what"], ps)
                if w:
                    rep.violated("R-BOUND", fn, inst, desc, "not bounded by the size the caller passed: " + w, o["ln"])
                else:
                    rep.undecided("R-BOUND", fn, inst, desc, o["detail"], o["ln"])
    return n


# ------------------------------------------------------------------ R-CODEC

def status_defaults(u):
    d = {}
    for n, f in u.functions.items():
        if n.startswith(("bn_", "ec_", "ecdsa_")) and n not in ("bn_is_odd", "bn_is_zero", "bn_is_one", "bn_cmp", "bn_is_even"):
            d[n] = 0
    return d


B = 5        # bytes per coordinate used for the instantiation (any value > 2 separates the five size classes)
BASE = {"curve": 0x1000, "point": 0x2000, "pub_key_x": 0x3000, "pub_key_y": 0x4000, "pub_key_size": 0x5000}


def _field_of(arg):
    """&point->x  ->  'x'"""
    a = strip_casts(arg)
    if a.get("k") == "un" and a["op"] == "&":
        a = strip_casts(a["e"])
    if a.get("k") == "mem":
        return a["f"]
    return None


def _layout(pe, events, codec):
    """summarise a trace: prefix store, coordinate transfers (field, buffer, offset, len), size store, flags"""
    lay = {"prefix": None, "xfer": [], "size": None, "infinity": None, "restore": None, "check": False, "inf_before_check": None}
    for e, b in events:
        for x, _ in walk(e):
            k = x.get("k")
            if k == "bin" and x["op"] == "=":
                lk = key(strip_casts(x["x"]))
                try:
                    v = r_mpt.eval_expr(x["y"], {}, pe._hook(b, {}))
                except r_mpt.Unknown:
                    v = None
                if lk == "pub_key_x[0]":
                    lay["prefix"] = v
                elif lk == "*(pub_key_size)":
                    lay["size"] = v
                elif lk == "point->infinity":
                    lay["infinity"] = v
                    if lay["inf_before_check"] is None:
                        lay["inf_before_check"] = not lay["check"] and lay["restore"] is None
            elif k == "call" and x.get("fn") in codec:
                pi, li = codec[x["fn"]]
                try:
                    pv = r_mpt.eval_expr(x["args"][pi], {}, pe._hook(b, {}))
                    lv = r_mpt.eval_expr(x["args"][li], {}, pe._hook(b, {}))
                except r_mpt.Unknown:
                    pv = lv = None
                buf = None
                off = None
                if pv is not None:
                    for n, a in BASE.items():
                        if a <= pv < a + 0x1000:
                            buf, off = n, pv - a
                lay["xfer"].append((_field_of(x["args"][0]), buf, off, lv))
            elif k == "call" and x.get("fn") == "ec_point_restore_y_by_x":
                try:
                    lay["restore"] = r_mpt.eval_expr(x["args"][0], {}, pe._hook(b, {}))
                except r_mpt.Unknown:
                    lay["restore"] = "?"
            elif k == "call" and x.get("fn") == "ec_point_check_as_pub_key":
                lay["check"] = True
    return lay


def codec_rule(rep, u, order):
    exp = u.fn("ecdsa_pub_key_export_" + order)
    imp = u.fn("ecdsa_pub_key_import_" + order)
    if exp is None or imp is None:
        raise driver.AnalysisBroken("anchor ecdsa_pub_key_export/import_%s vanished" % order)
    rep.functions.update([exp.name, imp.name])
    pe = r_stride.PE(u, call_default=status_defaults(u))
    oddk = "bn_is_odd(&(point->y))"
    ecodec = {"bn_export_%s_bin" % order: (2, 3)}
    icodec = {"bn_import_%s_bin" % order: (1, 2)}
    n = 0
    layouts = {}
    for comp, ynull, inf, odd in itertools.product((0, 1), (0, 1), (0, 1), (0, 1)):
        bind = dict(BASE)
        if ynull:
            bind["pub_key_y"] = 0
        bind.update({"compress": comp, "curve->m": 8 * B, "point->infinity": inf, oddk: odd})
        ev, ret = pe.trace(exp, bind)
        name = "export[%s compress=%d y=%s infinity=%d odd=%d]" % (order, comp, "NULL" if ynull else "buf", inf, odd)
        if isinstance(ret, str):
            rep.undecided("R-CODEC", exp, name, "exporter layout is determined by its arguments", ret)
            continue
        if ret != 0:
            rep.violated("R-CODEC", exp, name, "exporter succeeds for every valid argument combination",
                         "returns %s when every bignum call succeeds" % ret)
            continue
        lay = _layout(pe, ev, ecodec)
        n += 1
        hi = max([1 if lay["prefix"] is not None else 0] + [(o or 0) + (l or 0) for f, bf, o, l in lay["xfer"] if bf == "pub_key_x"])
        want = lay["size"] if any(bf == "pub_key_y" for f, bf, o, l in lay["xfer"]) is False else None
        desc = "the size the exporter reports equals the bytes it wrote to pub_key_x"
        if lay["size"] is None:
            rep.violated("R-CODEC", exp, name + ":size", desc, "no size is reported on this path")
        elif lay["size"] != hi:
            rep.violated("R-CODEC", exp, name + ":size", desc, "reports %s but the highest byte written is %d (bytes=%d)" % (lay["size"], hi, B))
        else:
            rep.proved("R-CODEC", exp, name + ":size", desc, "size %d (bytes=%d)" % (hi, B))
        layouts[(comp, ynull, inf, odd)] = lay
        # the importer, given what the exporter emitted
        ib = dict(BASE)
        if ynull:
            ib["pub_key_y"] = 0
        ib.update({"pub_key_size": lay["size"], "curve->m": 8 * B})
        if lay["prefix"] is not None:
            ib["pub_key_x[0]"] = lay["prefix"]
        iev, iret = pe.trace(imp, ib)
        iname = "import-of-" + name
        idesc = "the importer accepts what the exporter emitted and reads the coordinates from where they were written"
        if isinstance(iret, str):
            rep.undecided("R-CODEC", imp, iname, idesc, iret)
            continue
        if iret != 0:
            rep.violated("R-CODEC", imp, iname, idesc, "importer returns %s for size=%s prefix=%s" % (iret, lay["size"], lay["prefix"]))
            continue
        il = _layout(pe, iev, icodec)
        why = None
        if inf:
            if il["infinity"] != 1:
                why = "the neutral element encoding does not set point->infinity = 1"
        else:
            ex = {f: (bf, o, l) for f, bf, o, l in lay["xfer"]}
            ix = {f: (bf, o, l) for f, bf, o, l in il["xfer"]}
            if ex.get("x") != ix.get("x"):
                why = "x written at %s but read from %s" % (ex.get("x"), ix.get("x"))
            elif "y" in ex:
                if ex["y"] != ix.get("y"):
                    why = "y written at %s but read from %s" % (ex.get("y"), ix.get("y"))
            else:
                if il["restore"] != odd:
                    why = "compressed form: exporter encodes parity %d, importer requests parity %s" % (odd, il["restore"])
            if why is None and il["infinity"] == 1:
                why = "a finite point imports as the neutral element"
        if why:
            rep.violated("R-CODEC", imp, iname, idesc, why)
        else:
            rep.proved("R-CODEC", imp, iname, idesc, "layout %s" % (sorted(il["xfer"], key=str) or "neutral element"))
    # rejection of unknown sizes / prefixes, acceptance of the standard ones
    std = {1: {0}, 1 + B: {2, 3}, 1 + 2 * B: {4, 6, 7}}
    seen_ts = set()
    for size in (1, 2, B - 1, B, B + 1, B + 2, 2 * B - 1, 2 * B, 2 * B + 1, 2 * B + 2):
        for prefix in range(0, 9):
            ib = dict(BASE)
            ib.update({"pub_key_size": size, "curve->m": 8 * B, "pub_key_x[0]": prefix})
            if size == 1 + 2 * B and prefix in (6, 7):
                # hybrid form (X9.62 / SEC 1 2.3.4): the prefix carries the parity of y: accepted iff it agrees with the y read
                for odd in (0, 1):
                    ib2 = dict(ib)
                    ib2[oddk] = odd
                    iev, iret = pe.trace(imp, ib2)
                    iname = "import[%s size=1+2*bytes prefix=%d y_odd=%d]" % (order, prefix, odd)
                    idesc = "a hybrid encoding is accepted iff its prefix bit equals the parity of the y it carries"
                    if isinstance(iret, str):
                        rep.undecided("R-CODEC", imp, iname, idesc, iret)
                        continue
                    n += 1
                    if (iret == 0) == ((prefix & 1) == odd):
                        rep.proved("R-CODEC", imp, iname, idesc, "returns %s" % iret)
                    else:
                        rep.violated("R-CODEC", imp, iname, idesc, "returns %s: prefix %02x is taken like 04 and its parity bit never compared with y "
                                     "(06 || Gx || Gy with odd Gy imports as (Gx, Gy))" % (iret, prefix))
                continue
            iev, iret = pe.trace(imp, ib)
            iname = "import[%s size=%s prefix=%d]" % (order, {1: "1", B: "bytes", B + 1: "1+bytes", 2 * B: "2*bytes", 2 * B + 1: "1+2*bytes"}.get(size, "other:%d" % size), prefix)
            idesc = "sizes and prefixes outside the encodings are rejected, the standard ones accepted"
            if isinstance(iret, str):
                rep.undecided("R-CODEC", imp, iname, idesc, iret)
                continue
            n += 1
            if size in std:
                ok = (iret == 0) == (prefix in std[size])
            elif size in (B, 2 * B):
                ok = iret == 0        # raw coordinates: no prefix byte
            else:
                ok = iret != 0
            if ok:
                rep.proved("R-CODEC", imp, iname, idesc, "returns %s" % iret)
            else:
                rep.violated("R-CODEC", imp, iname, idesc, "returns %s" % iret)
            if iret == 0 and size != 1 and ("ts", size) not in seen_ts:
                seen_ts.add(("ts", size))
                iname = iname.split(" prefix=")[0] + "]"
                il = _layout(pe, iev, icodec)
                d2 = "an accepted finite encoding leaves point->infinity == 0 whatever the object held before"
                if il["infinity"] == 0 and il["inf_before_check"]:
                    rep.proved("R-TS", imp, iname + ":infinity", d2, "point->infinity = 0 stored on the path, before the validation")
                elif il["infinity"] == 0:
                    rep.violated("R-TS", imp, iname + ":infinity", d2, "point->infinity = 0 is stored only after the validation: with a stale "
                                 "infinity=1 the order check n*Q = O passes trivially")
                else:
                    rep.violated("R-TS", imp, iname + ":infinity", d2, "the path never stores point->infinity: a point object that held the "
                                 "neutral element keeps infinity=1 and the imported key is treated as O")
    return n


# ------------------------------------------------------------------ R-MPT validation

def validation_rule(rep, u):
    """default configuration (EC_DISABLE_PUB_KEY_CHK not defined)"""
    n = 0
    chk = u.fn("ec_point_check_as_pub_key")
    rst = u.fn("ec_point_restore_y_by_x")
    if chk is None or rst is None:
        raise driver.AnalysisBroken("anchor ec_point_check_as_pub_key / ec_point_restore_y_by_x vanished")
    rep.functions.update([chk.name, rst.name])
    def passes(fn, targets, accept_calls, what, extra_blocks=()):
        """every entry->target path passes a block that contains one of the calls (whose failure leaves)"""
        blocks = set(extra_blocks)
        for bid in fn.reachable_blocks():
            for e in fn.blocks[bid].elems:
                for x, _ in walk(e):
                    if x.get("k") == "call" and x.get("fn") in accept_calls:
                        blocks.add(bid)
        r = fn.reach_from([fn.entry], avoid=list(blocks))
        bad = [t for t in targets if t[0] in r]
        return blocks, bad
    ctg = r_mpt.success_returns(chk)
    # a public key is a finite point: the flag is tested (the coordinates of an object whose flag says 'infinity' are those of
    # whatever point it held before, and those pass the curve equation) - key generation with d = 0 relies on this
    n += 1
    r_mpt.check_guard(rep, chk, "point->infinity", r_mpt.field_atom("infinity"), (0, 1), (0,))
    for callee in ("ec_point_check_affine", "ec_point_check_scalar_mult"):
        blocks, bad = passes(chk, ctg, {callee}, callee)
        desc = "every success return of ec_point_check_as_pub_key passes %s" % callee
        n += 1
        if not ctg or not blocks or bad:
            rep.violated("R-MPT", chk, "passes:" + callee, desc, "a success return is reachable without the call")
        else:
            rep.proved("R-MPT", chk, "passes:" + callee, desc, "call blocks %s cut every entry->success path" % sorted(blocks))
        for bid in sorted(blocks):
            n += 1
            _status_guard(rep, chk, bid, ctg, (callee,))
    # restore_y: every success return passes the check, and a failing check cannot reach success
    tg = r_mpt.success_returns(rst)
    blocks, bad = passes(rst, tg, {"ec_point_check_as_pub_key"}, "check")
    desc = "every success return of ec_point_restore_y_by_x passes ec_point_check_as_pub_key"
    n += 1
    if not tg or not blocks:
        rep.violated("R-MPT", rst, "validation", desc, "no success return / no check call found")
    elif bad:
        rep.violated("R-MPT", rst, "validation", desc, "a path reaches the success return at block B%d without the check" % bad[0][0])
    else:
        rep.proved("R-MPT", rst, "validation", desc, "check calls in blocks %s cut every entry->success path" % sorted(blocks))
    # status of each check is tested: the edge taken for a non-zero status does not reach success ...
    for bid in sorted(blocks):
        n += 1
        _status_guard(rep, rst, bid, tg)
    for order in ("be", "le"):
        imp = u.fn("ecdsa_pub_key_import_" + order)
        tg = r_mpt.success_returns(imp)
        inf_blocks = [bid for bid in imp.reachable_blocks() for e in imp.blocks[bid].elems
                      if e.get("k") == "bin" and e["op"] == "=" and key(strip_casts(e["x"])) == "point->infinity" and const_val(e["y"]) == 1]
        blocks, bad = passes(imp, tg, {"ec_point_check_as_pub_key", "ec_point_restore_y_by_x"}, "check", inf_blocks)
        desc = "every accepting path of the importer validates the point (or is the neutral element arm)"
        n += 1
        if len(tg) < 5:
            rep.violated("R-MPT", imp, "validation", desc, "expected five accepting arms, found %d" % len(tg))
        elif bad:
            ln = imp.blocks[bad[0][0]].elems[bad[0][1]].get("ln") if len(bad[0]) > 1 else None
            rep.violated("R-MPT", imp, "validation", desc, "the success return at line %s is reachable without ec_point_check_as_pub_key / "
                         "ec_point_restore_y_by_x" % ln, ln)
        else:
            rep.proved("R-MPT", imp, "validation", desc, "%d accepting returns; validating blocks %s" % (len(tg), sorted(blocks)))
        for bid in sorted(set(blocks) - set(inf_blocks)):
            n += 1
            _status_guard(rep, imp, bid, tg)
    return n


def _status_guard(rep, fn, bid, targets, names=VALIDATORS):
    """a non-zero status of the validating call in block bid cannot reach a success return without passing another
    validating call: partial evaluation from the call with its result bound to a non-zero value"""
    blk = fn.blocks[bid]
    call = None
    for e in blk.elems:
        for x, _ in walk(e):
            if x.get("k") == "call" and x.get("fn") in names:
                call = x
    inst = "status:%s#%s" % (call["fn"], _ordinal(fn, call))
    desc = "a failing %s cannot reach a success return" % call["fn"]
    pe = r_stride.PE(fn.unit)
    body = {b for b in fn.reachable_blocks() if b == bid or not _has_check(fn, b, names)}
    worst = "no"
    for v in (1, -1, 22):
        for t in targets:
            stmt = fn.blocks[t[0]].elems[t[1]]
            r, path = pe.reach_stmt(fn, bid, body, {key(call): v}, t[0], stmt)
            if r == "sure":
                return rep.violated("R-MPT", fn, inst, desc, "with status %d the success return at line %s is reached (blocks %s)" % (
                    v, stmt.get("ln"), "->".join("B%d" % x for x in path)), call.get("ln"))
            if r == "unsure":
                worst = "unsure"
    if worst == "unsure":
        return rep.undecided("R-MPT", fn, inst, desc, "a test of the status could not be evaluated", call.get("ln"))
    return rep.proved("R-MPT", fn, inst, desc, "for status in (1, -1, 22) no success return is reachable from the call without "
                      "another validating call", call.get("ln"))


def _has_check(fn, b, names=VALIDATORS):
    for e in fn.blocks[b].elems:
        for x, _ in walk(e):
            if x.get("k") == "call" and x.get("fn") in names:
                return True
    return False


def _ordinal(fn, call):
    i = 0
    for bid in sorted(fn.reachable_blocks(), reverse=True):
        for e in fn.blocks[bid].elems:
            for x, _ in walk(e):
                if x.get("k") == "call" and x.get("fn") == call["fn"]:
                    i += 1
                    if x is call:
                        return i
    return 0


# ------------------------------------------------------------------ R-PARITY

def parity_rule(rep, u):
    fn = u.fn("ec_point_restore_y_by_x")
    pe = r_stride.PE(u, call_default=status_defaults(u))
    n = 0
    desc = "the stored y is the computed root iff its parity equals the requested parity, otherwise p - root"
    for want, odd, am3 in itertools.product((0, 1), (0, 1), (0, 1)):
        bind = {"y_is_odd": want, "bn_is_odd(&(tm1))": odd, "point": 0x2000, "curve": 0x1000, "curve->flags": am3}
        ev, ret = pe.trace(fn, bind)
        inst = "parity[want=%d root_odd=%d a_m3=%d]" % (want, odd, am3)
        if isinstance(ret, str):
            rep.undecided("R-PARITY", fn, inst, desc, ret)
            continue
        n += 1
        # the last assignment to point->y, and how its source was computed
        src = None
        tm2_from = None
        for e, b in ev:
            for x, _ in walk(e):
                if x.get("k") != "call":
                    continue
                a0 = key(strip_casts(x["args"][0])) if x["args"] else None
                if x.get("fn") == "bn_assign" and a0 == "&(point->y)":
                    src = key(strip_casts(x["args"][1]))
                elif x.get("fn") == "bn_assign" and a0 == "&(tm2)":
                    tm2_from = key(strip_casts(x["args"][1]))
                elif x.get("fn") == "bn_mod_sub" and a0 == "&(tm2)" and tm2_from == "&(curve->p)" and \
                        key(strip_casts(x["args"][1])) == "&(tm1)":
                    tm2_from = "p - root"
        if ret != 0:
            rep.violated("R-PARITY", fn, inst, desc, "returns %s although every bignum call succeeds" % ret)
        elif want == odd and src == "&(tm1)":
            rep.proved("R-PARITY", fn, inst, desc, "y := root")
        elif want != odd and src == "&(tm2)" and tm2_from == "p - root":
            rep.proved("R-PARITY", fn, inst, desc, "y := p - root")
        else:
            rep.violated("R-PARITY", fn, inst, desc, "y := %s (%s)" % (src, tm2_from))
    return n


# ------------------------------------------------------------------ R-SPEC: curve equation and coordinate ranges

def _curve_rhs(am3):
    P = r_poly.Poly
    x = P.sym("point->x")
    a = P.const(-3) if am3 else P.sym("curve->a")
    return x ** 3 + a * x + P.sym("curve->b")


def affine_rule(rep, u):
    """ec_point_check_affine: every accepting path has established  p > x,  p > y  and  y^2 == x^3 + a*x + b
    (a = -3 on the EC_CURVE_FLAG_A_M3 arm).  The comparisons are enumerated over all their outcomes; the compared
    values are polynomials obtained by interpreting the bignum calls of the path."""
    fn = u.fn("ec_point_check_affine")
    if fn is None:
        raise driver.AnalysisBroken("anchor ec_point_check_affine vanished")
    rep.functions.add(fn.name)
    pe = r_stride.PE(u, call_default=status_defaults(u))
    keys = sorted({key(x) for _, _, x, _ in fn.nodes() if x.get("k") == "call" and x.get("fn") == "bn_cmp"})
    P = r_poly.Poly
    n = 0
    for am3 in (0, 1):
        want_eq = P.sym("point->y") ** 2 - _curve_rhs(am3)
        accepted = 0
        problems = []
        undec = None
        for vals in itertools.product((-1, 0, 1), repeat=len(keys)):
            bind = {"point": 0x2000, "curve": 0x1000, "curve->flags": am3}
            bind.update(dict(zip(keys, vals)))
            ev, ret = pe.trace(fn, bind)
            if isinstance(ret, str):
                undec = ret
                continue
            if ret != 0:
                continue
            accepted += 1
            st, cm = r_poly.interpret(ev, lambda a, b: const_val(a))
            facts = set()
            for call, pa, pb in cm:
                v = bind.get(key(call))
                for (l, r, val) in ((pa, pb, v), (pb, pa, -v if v is not None else None)):
                    if l == P.sym("curve->p") and val == 1:
                        if r == P.sym("point->x"):
                            facts.add("p>x")
                        if r == P.sym("point->y"):
                            facts.add("p>y")
                if v == 0 and pb is not None and ((pa - pb) == want_eq or (pb - pa) == want_eq):
                    facts.add("eq")
            miss = [f for f in ("p>x", "p>y", "eq") if f not in facts]
            if miss:
                problems.append("accepting path with comparison results %s lacks %s" % (dict(zip(keys, vals)), ", ".join(
                    {"p>x": "x < p", "p>y": "y < p", "eq": "y^2 == x^3 + a*x + b"}[m] for m in miss)))
        n += 1
        inst = "affine-check[a_m3=%d]" % am3
        desc = "every accepting path of ec_point_check_affine establishes x < p, y < p and the curve equation"
        if undec:
            rep.undecided("R-SPEC", fn, inst, desc, undec)
        elif not accepted:
            rep.violated("R-SPEC", fn, inst, desc, "no accepting path")
        elif problems:
            rep.violated("R-SPEC", fn, inst, desc, problems[0])
        else:
            rep.proved("R-SPEC", fn, inst, desc, "%d outcome combinations of %d comparisons; %d accepting" % (3 ** len(keys), len(keys), accepted))
    # the square root in ec_point_restore_y_by_x is taken of the right-hand side of the curve equation
    fr = u.fn("ec_point_restore_y_by_x")
    for am3 in (0, 1):
        bind = {"y_is_odd": 0, "bn_is_odd(&(tm1))": 0, "point": 0x2000, "curve": 0x1000, "curve->flags": am3}
        ev, ret = pe.trace(fr, bind)
        inst = "sqrt-argument[a_m3=%d]" % am3
        desc = "ec_point_restore_y_by_x takes the square root of x^3 + a*x + b"
        if isinstance(ret, str):
            rep.undecided("R-SPEC", fr, inst, desc, ret)
            continue
        n += 1
        st, cm = r_poly.interpret(ev, lambda a, b: const_val(a))
        arg = [pa for call, pa, pb in cm if (call.get("fn") or "").startswith("bn_mod_sqrt")]
        if arg and arg[0] == _curve_rhs(am3):
            rep.proved("R-SPEC", fr, inst, desc, "argument = %s" % arg[0])
        else:
            rep.violated("R-SPEC", fr, inst, desc, "argument = %s" % (arg[0] if arg else "no bn_mod_sqrt call on the path"))
    return n


# ------------------------------------------------------------------ R-DOMAIN: scalars live modulo n

def scalar_domain_rule(rep, u):
    """a bignum that is about to be used as the scalar of a point multiplication is reduced modulo the group order n,
    never modulo the field prime p (typing of bignum objects by their next use)"""
    n = 0
    mults = {}
    for nm, f in u.functions.items():
        if "mult" in nm and nm.startswith("ec_point") and f.has_cfg:
            idx = [i for i, p_ in enumerate(f.params) if u.type(p_["t"])["s"] in ("bn_p", "bn_t *") and p_["n"] not in ("a", "b")]
            if idx:
                mults[nm] = idx
    for fn in u.function_list:
        if fn.relfile() != ECDSA_H or not fn.has_cfg or fn.name.endswith("self_test"):
            continue
        mods = []
        for pos, root, c, ps in fn.calls():
            nm = c.get("fn") or ""
            if nm.startswith("bn_mod_") and c["args"]:
                which = [key(strip_casts(a)) for a in c["args"] if key(strip_casts(a)) in ("&(curve->p)", "&(curve->n)")]
                if which:
                    mods.append((pos, c, key(strip_casts(c["args"][0])), which[0]))
        for pos, root, c, ps in fn.calls(set(mults)):
            for i in mults[c["fn"]]:
                if i >= len(c["args"]):
                    continue
                S = key(strip_casts(c["args"][i]))
                for mpos, mc, obj, modulus in mods:
                    if obj != S:
                        continue
                    # the reduction reaches the multiplication without the object being re-assigned in between
                    if not _reaches_without_kill(fn, mpos, pos, S):
                        continue
                    n += 1
                    rep.functions.add(fn.name)
                    inst = "scalar:%s@%s#%d" % (S, c["fn"], _ordinal(fn, mc))
                    desc = "%s is reduced modulo the group order before it is used as the scalar of %s" % (S, c["fn"])
                    if modulus == "&(curve->n)":
                        rep.proved("R-DOMAIN", fn, inst, desc, "%s(..., &curve->n, ...) at line %s" % (mc["fn"], mc.get("ln")), mc.get("ln"))
                    else:
                        rep.violated("R-DOMAIN", fn, inst, desc, "%s reduces it modulo the field prime p at line %s: scalars in [p, n) are "
                                     "changed (curves with n > p)" % (mc["fn"], mc.get("ln")), mc.get("ln"))
    return n


def _reaches_without_kill(fn, a, b, obj):
    """some path from just after position a to position b on which obj is not the destination of bn_assign/bn_import*"""
    seen = set()
    work = [(a[0], a[1] + 1)]
    while work:
        bid, i = work.pop()
        if (bid, i) in seen:
            continue
        seen.add((bid, i))
        elems = fn.blocks[bid].elems
        killed = False
        j = i
        while j < len(elems):
            if (bid, j) == b:
                return True
            for x, _ in walk(elems[j]):
                if x.get("k") == "call" and (x.get("fn") or "").startswith(("bn_assign", "bn_import")) and x["args"] and \
                        key(strip_casts(x["args"][0])) == obj:
                    killed = True
            if killed:
                break
            j += 1
        if killed:
            continue
        for s_ in fn.blocks[bid].rsucc():
            work.append((s_, 0))
    return False


# ------------------------------------------------------------------ R-SIB

def _norm(s, order):
    """only the function's own byte order is abstracted: a _le function calling a _be codec keeps the foreign name"""
    return s.replace("_%s_bin" % order, "_XX_bin").replace("_%s(" % order, "_XX(")


# pairs whose two flavours differ by more than the codec, with the rule that decides them instead
SIBLING_SPECIAL = {
    "ecdsa_hash_import_be": "the most significant bytes of a little-endian string are its last bytes: the source offset differs (decided by C03 hash-leftmost-bits)",
}


def sibling_rule(rep, u, fns):
    by = {fn.name: fn for fn in fns}
    n = 0
    for name, fn in sorted(by.items()):
        if not name.endswith("_be"):
            continue
        if name in SIBLING_SPECIAL and by.get(name[:-3] + "_le") is not None:
            continue
        sib = by.get(name[:-3] + "_le")
        desc = "%s and its _le sibling are the same program up to the byte order of the bignum codec" % name
        if sib is None:
            rep.violated("R-SIB", fn, "sibling", desc, "no _le sibling")
            continue
        n += 1
        a = core.alpha_keys(fn, lambda k_: _norm(k_, "be"))
        b_ = core.alpha_keys(sib, lambda k_: _norm(k_, "le"))
        from collections import Counter
        ca, cb = Counter(a), Counter(b_)
        # a codec of the other byte order inside a function of one order
        foreign = [k_ for k_ in a if "_le_bin" in k_ or "_le(" in k_] + [k_ for k_ in b_ if "_be_bin" in k_ or "_be(" in k_]
        if foreign:
            rep.violated("R-SIB", fn, "sibling", desc, "codec of the other byte order is used: %s" % foreign[0][:120])
        elif ca == cb:
            rep.proved("R-SIB", fn, "sibling", desc, "%d statements agree (as multisets, variables renamed canonically)" % len(a))
        else:
            only_a = list((ca - cb).elements())
            only_b = list((cb - ca).elements())
            rep.violated("R-SIB", fn, "sibling", desc, "only in _be: %s ; only in _le: %s" % (only_a[:2], only_b[:2]))
    return n


# ------------------------------------------------------------------ entry points

def byte_api(rep, us, prop):
    """shared with C03: R-BOUND + R-SIB over the byte API of the default unit"""
    u = us.get("ecdsa:default")
    if u is None:
        return 0
    fns = byte_fns(u)
    n = bound_rule(rep, u, fns)
    n += sibling_rule(rep, u, fns)
    return n


def units(tier):
    us = [common.ecdsa_unit("ecdsa:default"), common.ecdsa_unit("ecdsa:test", common.EC_TEST_DEFS)]
    if tier == "thorough":
        for w in (32, 64):
            for proj in (0, 1):
                defs = ["BN_DIGIT_BIT_CNT=%d" % w, "BN_BIT_LEN=1408"]
                if proj:
                    defs.append("EC_USE_PROJECTIVE=1")
                us.append(common.ecdsa_unit("ecdsa:w%d:proj%d" % (w, proj), defs))
    return us


def cofactor_rule(rep, u, fname="ecdsa_dh"):
    """Cofactor Diffie-Hellman multiplies the *point* by h*d so that a peer point outside the order-n subgroup is mapped to
    O (or into the subgroup).  h*d may therefore not be reduced modulo n: for a point of order 2 or 4n, ((h*d) mod n)*Q
    differs from h*d*Q.  Every use of curve->h in the routine is outside a reduction modulo curve->n."""
    fn = u.fn(fname)
    if fn is None or not fn.has_cfg:
        raise driver.AnalysisBroken("anchor %s vanished" % fname)
    rep.functions.add(fname)
    n = 0
    for pos, root, c, ps in fn.calls():
        if not any(x.get("k") == "mem" and x.get("f") == "h" for a in c.get("args", []) for x, _ in walk(a)):
            continue
        n += 1
        modn = (c.get("fn") or "").startswith("bn_mod_") and any(x.get("k") == "mem" and x.get("f") == "n" for a in c["args"] for x, _ in walk(a))
        desc = "%s: the cofactor is applied without reducing h*d modulo the group order" % fname
        (rep.violated if modn else rep.proved)(
            "R-DOMAIN", fn, "cofactor-use#%d" % n, desc,
            "%s(..., curve->h, &curve->n, ...) at line %s: for a peer point whose order does not divide n the product is not h*d*Q "
            "(an order-2 point yields a 'shared secret' instead of failure)" % (c.get("fn"), c.get("ln")) if modn else "%s" % c.get("fn"), c.get("ln"))
    return n


def run(rep, tier):
    us = driver.load_units(units(tier))
    rep.use_units(us)
    nb = nc = nv = np_ = ns = nspec = ndom = 0
    for lab, u in us.items():
        fns = byte_fns(u)
        rep.floor("byte-string entry points in %s" % lab, len(fns), 16)
        nb += bound_rule(rep, u, fns)
        ns += sibling_rule(rep, u, fns)
        for order in ("be", "le"):
            nc += codec_rule(rep, u, order)
        np_ += parity_rule(rep, u)
        ndom += scalar_domain_rule(rep, u)
        nspec += affine_rule(rep, u)
        # the codec bodies the byte API relies on (C01's functions, re-checked here for the fill clause)
        from props import memsafe
        for f_ in u.function_list:
            if f_.name.startswith(("bn_digits_export_", "bn_digits_import_", "bn_export_", "bn_import_")) and f_.has_cfg:
                memsafe.tail_fill_rule(rep, f_)
        if lab != "ecdsa:test":      # the test configuration defines EC_DISABLE_PUB_KEY_CHK
            nv += validation_rule(rep, u)
    # cofactor multiplication in ecdsa_dh uses curve->h from the built-in table: the table rule of C02 (incl. the cofactor) is
    # an obligation of this property too
    from props import c02
    del c02.CURVES[:]
    rep.floor("curve records (cofactor, order, generator)", c02.curve_table(rep, us["ecdsa:default"]), 30)
    # key generation maps the seed into [1, n-1] with bn_mod_reduce: a value equal to the modulus is reduced too (C03's rule)
    from props import c03
    c03.reduce_rule(rep, us["ecdsa:default"])
    # private keys are scalars below the order: the byte API's size limit for them comes from the order (C03's rule)
    rep.floor("private-key-size functions", c03.order_bytes_rule(rep, us["ecdsa:default"], list(c02.CURVES), what="key"), 4)
    # compressed keys are restored with bn_mod_sqrt: its non-residue search must not give up because the operand is small
    from props import c01
    c01.search_budget_rule(rep, us["ecdsa:default"])
    rep.floor("cofactor uses in ecdsa_dh", cofactor_rule(rep, us["ecdsa:default"]), 1)
    rep.floor("bounded reads/writes decided", nb, 60)
    rep.floor("codec layouts and importer arms evaluated", nc, 200)
    rep.floor("validation obligations", nv, 10)
    rep.floor("parity cases", np_, 8)
    rep.floor("scalar reductions before a point multiplication", ndom, 2)
    rep.floor("curve-equation obligations", nspec, 8)
    rep.floor("sibling pairs", ns, 16)
    return driver.finish(
        rep, "other",
        "Byte API of crypto/dsa/ecdsa.h in %d configurations: reads bounded by caller sizes (abstract interpretation), exporter/importer "
        "layout agreement by partial evaluation of both functions over every argument class, validation must-pass-through, parity "
        "selection, infinity typestate, _be/_le sibling agreement.  NOT decided: numerical agreement of key generation / "
        "Diffie-Hellman with a reference, correctness of the modular square root." % len(us),
        ["bn_import_*_bin reads exactly its length argument, bn_export_*_bin writes exactly its length argument (C01 covers their bodies)",
         "output buffers without a size parameter are as large as the header comment demands (1 + 2*bytes)"], TRUSTED)


def selftest():
    u = fixtures.load("byteapi.c")
    rep = driver.Report("fixture", "quick")
    fns = [f for f in u.function_list if f.name.startswith("fx_")]
    bound_rule(rep, u, fns)
    fixtures.expect(rep, ["fx_sign_bad_be"], ["fx_sign_ok_be"], "R-BOUND")
