"""C14 — encoders and decoders: inverses and standards.

Decided clauses:
  * R-TBL  Base64 alphabet = RFC 4648 and the decode table is its inverse; hex alphabets; pow10lst[k] = 10^k;
           CRC-32 tables regenerated from the polynomial in their name (normal / reflected; 16-entry tables =
           every 16th entry); XML entity tables pairwise consistent with their length tables; HTTP method /
           reason-phrase tables consistent with their length tables
  * digit-count comparator: the loop that counts decimal digits continues when the number EQUALS a power of ten
  * R-NEG  no negation of a signed value in its own signed type (minimum value)
  * R-LEN  a decoder that advances an output cursor reports a length that depends on what it stored
Not decided: round-trip / standard equality of the produced bytes.
"""
from rules import driver, core, r_mpt
from rules.core import walk, key, const_val
from props import common, fixtures

TRUSTED = ["clang 14 front end", "tool/lcbfacts.cc", "python3"]


def gv(u, name, fn=None):
    for g in u.global_list:
        if g["n"] == name and (fn is None or g.get("fn") == fn):
            v = core.global_value(u, g)
            if isinstance(v, dict) and "str" in v:
                return v["str"]
            return v
    return None


def crc_table(poly, reflected):
    tbl = []
    for i in range(256):
        if reflected:
            c = i
            for _ in range(8):
                c = (c >> 1) ^ (poly if c & 1 else 0)
        else:
            c = i << 24
            for _ in range(8):
                c = ((c << 1) ^ poly if c & 0x80000000 else (c << 1)) & 0xffffffff
        tbl.append(c & 0xffffffff)
    return tbl


def bitrev32(x):
    return int("{:032b}".format(x)[::-1], 2)


def pow10_rule(rep, un):
    """the digit counters of num2str.h size their output from pow10lst: a wrong entry makes them write before the buffer"""
    p10 = gv(un, "pow10lst")
    f = un.fn("u642str")
    ok = isinstance(p10, list) and all(int(p10[k]) == 10 ** k for k in range(1, len(p10))) and len(p10) == 20
    badk = [k for k in range(1, len(p10))] if not isinstance(p10, list) else [k for k in range(1, len(p10)) if int(p10[k]) != 10 ** k]
    (rep.proved if ok else rep.violated)("R-TBL", f, "pow10lst", "pow10lst[k] = 10^k for k = 1..19 (index 0 is not used by the digit counters)",
                                         ("entries %s differ: e.g. pow10lst[%d] = %s" % (badk[:4], badk[0], p10[badk[0]])) if badk else str(p10)[:80])


def tables(rep, us):
    ub = us["utils/base64.h"]
    fe = ub.fn("base64_encode")
    rep.functions.add(fe.name)
    alpha = gv(ub, "base64_tbl_coding")
    rfc = "ABCDEFGHIJKLMNOPQRSTUVWXYZabcdefghijklmnopqrstuvwxyz0123456789+/"
    (rep.proved if alpha == rfc else rep.violated)("R-TBL", fe, "base64-alphabet", "encode alphabet equals RFC 4648", str(alpha)[:70])
    dec = gv(ub, "base64_tbl_decoding")
    bad = []
    if isinstance(dec, list) and len(dec) == 256 and isinstance(alpha, str):
        for i, ch in enumerate(alpha):
            if int(dec[ord(ch)]) != i:
                bad.append("dec['%s']=%s" % (ch, dec[ord(ch)]))
        others = {int(dec[c]) for c in range(256) if chr(c) not in alpha}
        if any(o < 64 for o in others):
            bad.append("non-alphabet byte maps into 0..63")
    else:
        bad.append("table missing")
    (rep.proved if not bad else rep.violated)("R-TBL", ub.fn("base64_decode"), "base64-decode-table",
                                              "decode table is the inverse of the alphabet and maps no other byte into 0..63", "; ".join(bad[:4]))
    pow10_rule(rep, us["utils/num2str.h"])
    uc = us["math/crc32.h"]
    fc = uc.fn("crc32_normal") or uc.function_list[0]
    n = 0
    t256 = {}
    tclass = {}
    for g in uc.global_list:
        nm = g["n"]
        if not nm.startswith("crc32_tbl256_"):
            continue
        poly = int(nm.split("_")[-1], 16)
        vals = [int(x) & 0xffffffff for x in core.global_value(uc, g)]
        t256[nm.split("_")[-1]] = vals
        cands = {"normal(poly)": crc_table(poly, False), "reflected(poly as given)": crc_table(poly, True),
                 "reflected(bit-reversed poly)": crc_table(bitrev32(poly), True)}
        hit = [k for k, t in cands.items() if t == vals]
        if hit:
            tclass[nm] = (hit[0].startswith("reflected"), bitrev32(poly) if hit[0] == "reflected(poly as given)" else poly)
        n += 1
        (rep.proved if hit else rep.violated)("R-TBL", fc, nm, "256-entry CRC table regenerates from the polynomial in its name",
                                              hit[0] if hit else "matches neither the normal nor the reflected table of 0x%08x" % poly)
    for g in uc.global_list:
        nm = g["n"]
        if not nm.startswith("crc32_tbl16_"):
            continue
        key_ = nm.split("_")[-1]
        vals = [int(x) & 0xffffffff for x in core.global_value(uc, g)]
        big = t256.get(key_)
        ok = big is not None and vals == [big[16 * i] for i in range(16)]
        n += 1
        (rep.proved if ok else rep.violated)("R-TBL", fc, nm, "16-entry CRC table is every 16th entry of the 256-entry table")
    rep.floor("CRC tables", n, 8)
    crc_wrappers(rep, uc, tclass)
    ux = us["src/utils/xml.c"]
    fx = ux.fn("xml_encode")
    for a, b in (("xml_tags", "xml_tags_counts"), ("xml_symbols", "xml_symbols_counts")):
        sa, sb = gv(ux, a), gv(ux, b)
        ok = isinstance(sa, list) and isinstance(sb, list) and [len(x) for x in sa] == [int(x) for x in sb]
        (rep.proved if ok else rep.violated)("R-TBL", fx, a, "%s[i] has the length recorded in %s[i]" % (a, b), str(sb))
    ents = dict(zip(gv(ux, "xml_symbols") or [], gv(ux, "xml_tags") or []))
    want = {"'": "&apos;", '"': "&quot;", "&": "&amp;", "<": "&lt;", ">": "&gt;"}
    (rep.proved if ents == want else rep.violated)("R-TBL", fx, "xml-entities", "the five predefined XML entities map to their characters position by position", str(ents))
    uh = us["src/proto/http.c"]
    fh = uh.fn("http_get_err_descr") or uh.function_list[0]
    nn = 0
    for g in uh.global_list:
        nm = g["n"]
        if nm.startswith("reason_phrase_") and not nm.startswith("reason_phrase_size") and nm != "reason_phrase_none":
            sz = gv(uh, nm.replace("reason_phrase_", "reason_phrase_size_"))
            vals = core.global_value(uh, g)
            if sz is None:
                continue
            ok = all((isinstance(v, str) and len(v) == int(s)) or (not isinstance(v, str) and int(s) == 0) for v, s in zip(vals, sz)) and len(vals) == len(sz)
            nn += 1
            (rep.proved if ok else rep.violated)("R-TBL", fh, nm, "every reason phrase has the length recorded in the parallel size table")
    for a, b in (("HTTPReqMethod", "HTTPReqMethodSize"), ("HTTPTransferEncoding", "HTTPTransferEncodingSize")):
        va, vb = gv(uh, a), gv(uh, b)
        ok = va is not None and vb is not None and len(va) == len(vb) and all(
            (isinstance(v, str) and len(v) == int(s)) or (not isinstance(v, str) and int(s) == 0) for v, s in zip(va, vb))
        (rep.proved if ok else rep.violated)("R-TBL", fh, a, "%s[i] has the length recorded in %s[i]" % (a, b))
    hx = gv(us["src/utils/buf_str.c"], "hex_tbl", "cvt_bin2hex")
    (rep.proved if hx == "0123456789abcdef" else rep.violated)("R-TBL", us["src/utils/buf_str.c"].fn("cvt_bin2hex"), "hex-alphabet", "hex alphabet is 0-9a-f")


def crc_wrappers(rep, uc, tclass):
    """each crc32<x>_update / crc32<x> macro, expanded in a probe function: the table pair belongs to one polynomial,
    the table orientation matches the routine (reflected / normal), and (poly, init, refin, xorout) equal the catalogue
    parameters documented above the macro"""
    import os, re
    path = os.path.join(driver.REPO, "include/math/crc32.h")
    src = open(path, encoding="utf-8", errors="replace").read()
    names = re.findall(r"#define\s+(crc32\w*)_update\(", src)
    cat = {}
    for nm in names:
        head = src[:src.index("#define %s_update(" % nm)]
        m = list(re.finditer(r"width=32 poly=0x([0-9a-fA-F]+) init=0x([0-9a-fA-F]+) refin=(\w+) refout=(\w+)\s*\*?\s*xorout=0x([0-9a-fA-F]+)", head))
        if m:
            g = m[-1].groups()
            cat[nm] = (int(g[0], 16), int(g[1], 16), g[2] == "true", int(g[4], 16))
    txt = '#include <sys/param.h>\n#include <sys/types.h>\n#include <inttypes.h>\n#include <string.h>\n#include "%s"\n' % path
    for nm in names:
        txt += "uint32_t lcb_probe_u_%s(uint32_t c, const uint8_t *d, size_t n) { return (%s_update(c, d, n)); }\n" % (nm, nm)
        txt += "uint32_t lcb_probe_o_%s(const uint8_t *d, size_t n) { return (%s(d, n)); }\n" % (nm, nm)
    pu = driver.load_units([driver.UnitSpec("probe:crc32", "text", txt)])["probe:crc32"]
    fc = uc.fn("crc32_normal") or uc.function_list[0]
    n = 0
    for nm in names:
        for kind in ("u", "o"):
            fn = pu.fn("lcb_probe_%s_%s" % (kind, nm))
            if fn is None:
                raise driver.AnalysisBroken("probe for %s did not compile" % nm)
            call = None
            outer_not = False
            for bid in fn.reachable_blocks():
                for e in fn.blocks[bid].elems:
                    for x, ps in walk(e):
                        if x.get("k") == "call" and x.get("fn") in ("crc32_reflect", "crc32_normal"):
                            call = x
                            outer_not = any(p.get("k") == "un" and p.get("op") == "~" for p in ps)
            inst = "%s%s" % (nm, "_update" if kind == "u" else "")
            desc = "%s uses one polynomial's tables in the orientation of its routine, with the documented parameters" % inst
            if call is None:
                rep.violated("R-TBL", fc, inst, desc, "no crc32_reflect/crc32_normal call in the expansion")
                continue
            n += 1
            refl = call["fn"] == "crc32_reflect"
            tabs = []
            for a in call["args"][:2 if refl else 1]:
                a0 = core.strip_casts(a)
                tabs.append(a0["n"] if a0.get("k") == "ref" else None)
            bad = []
            cls = [tclass.get(t) for t in tabs if t]
            if not tabs[0] or not tabs[0].startswith("crc32_tbl256_"):
                bad.append("first table argument is %s, not a 256-entry table" % tabs[0])
            if refl and tabs[1] is not None and not tabs[1].startswith("crc32_tbl16_"):
                bad.append("second table argument is %s, not a 16-entry table" % tabs[1])
            if refl and tabs[0] and tabs[1] and tabs[0].split("_")[-1] != tabs[1].split("_")[-1]:
                bad.append("tables of different polynomials: %s and %s" % (tabs[0], tabs[1]))
            c0 = tclass.get(tabs[0]) if tabs[0] else None
            if c0 is not None and c0[0] != refl:
                bad.append("%s table passed to the %s routine" % ("reflected" if c0[0] else "normal", "reflected" if refl else "normal"))
            if nm in cat and c0 is not None:
                poly, init, refin, xorout = cat[nm]
                if c0[1] != poly:
                    bad.append("table polynomial 0x%08x, documented 0x%08x" % (c0[1], poly))
                if refin != refl:
                    bad.append("documented refin=%s" % refin)
                if (xorout == 0xffffffff) != outer_not or xorout not in (0, 0xffffffff):
                    bad.append("documented xorout=0x%08x, result %s inverted" % (xorout, "is" if outer_not else "is not"))
                if kind == "o":
                    iv = const_val(call["args"][2 if refl else 1])
                    if iv is None or (int(iv) & 0xffffffff) != init:
                        bad.append("documented init=0x%08x, passes %s" % (init, iv))
            elif nm not in cat:
                bad.append("no catalogue parameters documented above the macro")
            (rep.violated if bad else rep.proved)("R-TBL", fc, inst, desc, "; ".join(bad) if bad else "tables %s" % tabs)
    rep.floor("CRC wrapper macros", n, 16)


def digit_count_rule(rep, u):
    """for (len = 1; len < COUNT && num OP pow10lst[len]; len++): for num == 10^len the loop must continue"""
    n = 0
    for fn in u.function_list:
        if not fn.relfile().endswith("num2str.h"):
            continue
        for bid in fn.reachable_blocks():
            c = fn.blocks[bid].cond
            if c is None:
                continue
            c0 = core.strip_casts(c)
            if c0.get("k") != "bin" or c0["op"] not in ("<", ">", "<=", ">="):
                continue
            subs = [x for x, _ in walk(c0) if x.get("k") == "sub" and key(core.strip_casts(x["b"])) == "pow10lst"]
            if not subs:
                continue
            other = c0["x"] if any(x is subs[0] for x, _ in walk(c0["y"])) else c0["y"]
            n += 1
            rep.functions.add(fn.name)
            try:
                eq = r_mpt.eval_expr(c, {id(subs[0]): 1000, id(other): 1000, id(core.strip_casts(other)): 1000})
                lt = r_mpt.eval_expr(c, {id(subs[0]): 1000, id(other): 999, id(core.strip_casts(other)): 999})
                gt = r_mpt.eval_expr(c, {id(subs[0]): 1000, id(other): 1001, id(core.strip_casts(other)): 1001})
            except r_mpt.Unknown:
                rep.undecided("R-CMP", fn, "digit-count", "digit counter comparator evaluable", key(c))
                continue
            # the index bound evaluated before it (len < BOUND && num >= pow10lst[len]): BOUND is the number of table entries,
            # and the table is long enough for the largest 64-bit value (20 digits)
            entries = len(gv(u, "pow10lst") or [])
            bound = None
            for pb in fn.blocks[bid].preds:
                pc = fn.blocks[pb].cond
                p0 = core.strip_casts(pc) if pc is not None else None
                if p0 is not None and p0.get("k") == "bin" and p0["op"] in ("<", ">") and fn.blocks[pb].succ and fn.blocks[pb].succ[0] == bid:
                    k_ = const_val(p0["y"]) if p0["op"] == "<" else const_val(p0["x"])
                    idx_side = p0["x"] if p0["op"] == "<" else p0["y"]
                    if k_ is not None and key(core.strip_casts(idx_side)) == key(core.strip_casts(subs[0]["i"])):
                        bound = k_
            descb = "the digit counter may count up to the number of pow10lst entries (%d), enough for the 20 digits of 2^64-1" % entries
            if bound is None:
                rep.undecided("R-CMP", fn, "digit-count-bound", descb, "index bound not found")
            elif bound == entries and entries >= 20:
                rep.proved("R-CMP", fn, "digit-count-bound", descb, "bound %d" % bound)
            elif bound > entries:
                rep.violated("R-CMP", fn, "digit-count-bound", descb, "the bound %d lets the index pass the table's %d entries" % (bound, entries), c0.get("ln"))
            else:
                rep.violated("R-CMP", fn, "digit-count-bound", descb, "the counter stops at %d digits: values of %d digits and more are formatted "
                             "with too few digits and the leading digits are written before the buffer" % (bound, bound + 1), c0.get("ln"))
            desc = "the decimal digit counter keeps counting when the number equals a power of ten (10^k has k+1 digits)"
            if eq and gt and not lt:
                rep.proved("R-CMP", fn, "digit-count", desc, key(c0))
            else:
                rep.violated("R-CMP", fn, "digit-count", desc, "condition %s is %s for num == 10^k: 10^k is formatted with one digit too few "
                             "and the first digit is written before the buffer" % (key(c0), bool(eq)), c0.get("ln"))
    return n


def neg_rule(rep, u):
    n = 0
    for fn in u.function_list:
        if not fn.relfile().endswith("num2str.h"):
            continue
        for pos, root, x, ps in fn.nodes():
            if x.get("k") == "un" and x["op"] == "-":
                t = u.type(x["t"])
                s = core.strip_imp(x["e"])
                st = u.type(s["t"]) if "t" in s else {}
                if s.get("k") == "ref" and st.get("k") == "int" and st.get("sg") and t.get("sg"):
                    n += 1
                    rep.functions.add(fn.name)
                    rep.violated("R-NEG", fn, "negate:" + s["n"], "a signed value is negated only after conversion to an unsigned type",
                                 "-%s is computed in %s: undefined for the minimum value (and stored back into the signed variable)" % (s["n"], st["s"]), x["ln"])
    return n


def len_rule(rep, u, fname):
    """the value returned as 'produced size' is modified somewhere after its initialisation"""
    fn = u.fn(fname)
    if fn is None:
        raise driver.AnalysisBroken("anchor %s vanished" % fname)
    rep.functions.add(fname)
    stores = any(e.get("k") == "bin" and e["op"] == "=" and core.strip_casts(e["x"]).get("k") == "un" for bid, i, e in fn.roots())
    for pos, r in fn.returns():
        rv = core.strip_casts(r.get("e"))
        if rv is None or rv.get("k") != "ref" or rv.get("dk") != "local":
            continue
        writes = []
        for bid, i, e in fn.roots():
            for x, ps in walk(e):
                if (x.get("k") == "bin" and x["op"].endswith("=") and x["op"] not in ("==", "!=", "<=", ">=") and core.is_ref(x["x"], id=rv["id"])) or \
                        (x.get("k") == "un" and x["op"] in ("post++", "pre++") and core.is_ref(x["e"], id=rv["id"])):
                    writes.append(x)
        nonconst = [w for w in writes if not (w.get("k") == "bin" and w["op"] == "=" and const_val(w["y"]) is not None)]
        desc = "%s reports a produced size that depends on what it stored" % fname
        if stores and not nonconst:
            rep.violated("R-LEN", fn, "returned-size:" + rv["n"], desc,
                         "'%s' is only ever assigned constants (%s) although the function stores output: the reported length is always %s" % (
                             rv["n"], [const_val(w["y"]) for w in writes], [const_val(w["y"]) for w in writes][:1]), r.get("ln"))
        else:
            rep.proved("R-LEN", fn, "returned-size:" + rv["n"], desc)


def url_decode_rule(rep, u, fname="http_url_decode"):
    """URL unescape, one input position at a time, for every byte value: a '%' escape yields exactly the escaped byte
    (whatever it is), '+' yields a space, every other byte is copied.  Each output byte comes from exactly one of the three
    rules (an escape that decodes to '+' stays '+')."""
    from rules import r_stride
    fn = u.fn(fname)
    if fn is None or not fn.has_cfg:
        raise driver.AnalysisBroken("anchor %s vanished" % fname)
    rep.functions.add(fname)
    URL, BUF = 0x10000, 0x20000
    pn = [p["n"] for p in fn.params]
    bad = undec = None
    n = 0
    for esc, v in [(False, c) for c in range(256) if c != 0x25] + [(True, c) for c in range(256)]:
        pe = r_stride.PE(u, call_default={"ustrh2u32": v, "strh2u32": v, "ustrh2u8": v})
        data = [0x25, 0x58, 0x58] if esc else [v]
        for i, b_ in enumerate(data):
            pe.memory[URL + i] = b_
        ev, ret = pe.trace(fn, {pn[0]: URL, pn[1]: len(data), pn[2]: BUF, pn[3]: 8})
        what = ("escape decoding to 0x%02x" % v) if esc else ("byte 0x%02x" % v)
        if isinstance(ret, str):
            undec = undec or "%s: %s" % (what, ret)
            continue
        first = None
        for e, b in ev:
            for x, ps in walk(e):
                if first is None and x.get("k") == "bin" and x["op"] == "=" and core.strip_casts(x["x"]).get("k") == "un" and \
                        core.strip_casts(x["x"]).get("op") == "*":
                    try:
                        first = r_mpt.eval_expr(x["y"], {}, pe._hook(b, {})) & 0xff
                    except (r_mpt.Unknown, KeyError, TypeError):
                        first = -1
        n += 1
        want = v if esc else (0x20 if v == 0x2b else v)
        if first is None or first < 0:
            undec = undec or "%s: stored byte not computable" % what
        elif first != want:
            bad = bad or "%s is stored as 0x%02x instead of 0x%02x" % (what, first, want)
    desc = "%s: every escape yields the escaped byte, '+' yields a space, other bytes are copied (all 256 byte values in both roles)" % fname
    (rep.violated if bad else rep.undecided if undec else rep.proved)("R-SPEC", fn, "url-unescape", desc, bad or undec or "%d cases" % n)
    return n


def base64_encode_rule(rep, u, fname="base64_encode", table="base64_tbl_coding"):
    """base64_encode evaluated for every input length 0..7 (all three tail cases, with and without full groups) over three
    byte patterns, with the byte that follows the input in memory set to 0x00 and to 0xff: the characters stored equal
    the RFC 4648 encoding (python's base64 module as reference) and do not depend on the byte after the input."""
    import base64 as b64
    from rules import r_stride
    fn = u.fn(fname)
    if fn is None or not fn.has_cfg or table not in u.globals:
        raise driver.AnalysisBroken("anchor %s / %s vanished" % (fname, table))
    rep.functions.add(fname)
    tbl = core.global_value(u, u.globals[table])
    tbl = tbl["str"].encode() if isinstance(tbl, dict) and "str" in tbl else bytes(int(x) for x in tbl)
    SRC, DST, TBL = 0x10000, 0x20000, 0x30000
    pn = [p["n"] for p in fn.params]
    bad = undec = None
    n = 0
    for ln in range(0, 8):
        for pat in (0x65, 0xff, 0x01):
            data = bytes(((pat + 37 * i) & 0xff) for i in range(ln))
            want = b64.b64encode(data)
            for after in (0x00, 0xff):
                pe = r_stride.PE(u)
                for i, b_ in enumerate(data):
                    pe.memory[SRC + i] = b_
                pe.memory[SRC + ln] = after
                pe.memory[SRC + ln + 1] = after
                for i, b_ in enumerate(tbl):
                    pe.memory[TBL + i] = b_
                ev, ret = pe.trace(fn, {pn[0]: SRC, pn[1]: ln, pn[2]: DST, pn[3]: 64, pn[4]: 0, table: TBL})
                n += 1
                if isinstance(ret, str) or ret != 0:
                    undec = undec or "length %d: %s" % (ln, ret)
                    continue
                out = []
                for e, b in ev:
                    for x, ps in walk(e):
                        if x.get("k") == "bin" and x["op"] == "=" and core.strip_casts(x["x"]).get("k") == "un" and core.strip_casts(x["x"]).get("op") == "*":
                            try:
                                out.append(r_mpt.eval_expr(x["y"], {}, pe._hook(b, {})) & 0xff)
                            except (r_mpt.Unknown, KeyError, TypeError):
                                out.append(-1)
                if -1 in out:
                    undec = undec or "length %d: a stored character is not computable" % ln
                elif bytes(out[:len(want)]) != want:
                    bad = bad or "input %s followed in memory by 0x%02x is encoded as %r instead of %r%s" % (
                        data.hex(), after, bytes(out[:len(want)]).decode("latin1"), want.decode(),
                        ": the byte after the input is read" if after else "")
    desc = "%s produces the RFC 4648 text for inputs of 0..7 bytes, whatever follows the input in memory" % fname
    (rep.violated if bad else rep.undecided if undec else rep.proved)("R-SPEC", fn, "base64-encode", desc, bad or undec or "%d cases" % n)
    return n


def run(rep, tier):
    hs = ["utils/base64.h", "utils/num2str.h", "utils/str2num.h", "utils/strh2num.h", "utils/utf8.h", "math/crc32.h"]
    srcs = ["src/utils/xml.c", "src/utils/buf_str.c", "src/proto/http.c"]
    us = driver.load_units([common.hdr_unit(h, h) for h in hs] + [common.src_unit(s) for s in srcs])
    rep.use_units(us)
    tables(rep, us)
    n = digit_count_rule(rep, us["utils/num2str.h"])
    rep.floor("digit-count loops", n, 20)
    neg_rule(rep, us["utils/num2str.h"])
    len_rule(rep, us["utils/utf8.h"], "utf8_decode")
    rep.floor("URL unescape byte cases", url_decode_rule(rep, us["src/proto/http.c"]), 500)
    rep.floor("Base64 encoder cases", base64_encode_rule(rep, us["utils/base64.h"]), 48)
    from props import c14_audit
    rep.floor("signed decimal parsers", c14_audit.unsigned_accumulation_rule(rep, us["utils/str2num.h"]), 6)
    c14_audit.base64_exact_rule(rep, us["utils/base64.h"])
    # the hex codecs report what they wrote and zero what they did not: extent lints shared with C12
    from props import memsafe
    ub = us["src/utils/buf_str.c"]
    for f_ in ub.function_list:
        if f_.relfile() == "src/utils/buf_str.c" and f_.has_cfg and f_.name.startswith("cvt_"):
            rep.functions.add(f_.name)
            memsafe.stale_bound_rule(rep, f_)
            memsafe.tail_fill_rule(rep, f_)
            memsafe.unguarded_write_rule(rep, f_)
    return driver.finish(
        rep, "other",
        "Static analysis of the codec tables and of three structural rules. Decided: Base64 alphabet/inverse table, pow10lst, all CRC-32 "
        "tables regenerated from their polynomials, XML entity / HTTP phrase tables vs. length tables; the decimal digit counter handles "
        "exact powers of ten; no signed negation of the minimum; utf8_decode's reported length depends on its output. NOT decided: that "
        "encode/decode are mutual inverses on every byte string and that formatted numbers parse back (behavioural).",
        ["CRC tables are compared with tables regenerated in python from the polynomial"], TRUSTED)
