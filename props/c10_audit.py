"""C10 rules from the audit round (replays/C10-hunt).

  R-SELF     code that treats the originator `src` as one of the pool's own threads (skip pre-decrement, direct call on its
             behalf, single-thread shortcut) tests that src belongs to tp / is the calling thread - a non-NULL src alone says
             neither (a thread of another pool has a current-thread record too)
  R-COUNT    in tpt_msg_bsend_ex every direct callback invocation is counted as sent, every failed send as failed
  R-SYNCSELF the synchronous broadcast never queues the caller's own copy (it would wait for itself)
  R-SYNCMASK the flags cbsend refuses as "synchronous" all select the waiting path in bsend_ex
  R-OBO      every caller of the one-by-one chain starter handles "nobody else could be scheduled" by scheduling the
             (targeted) calling thread, like its sibling
  R-ORIGIN   cbsend refuses an originator that is not running (its completion cannot run there)
"""
from rules import driver, core, r_mpt
from rules.core import key, const_val, walk
from props import tp


def _cond_blocks_dominating(fn, pos):
    for bid in fn.reachable_blocks():
        cnd = fn.blocks[bid].cond
        if cnd is None or bid == pos[0] or not fn.dominates(bid, pos[0]):
            continue
        if all(pos[0] in fn.reach_from([s_]) for s_ in fn.blocks[bid].rsucc()):
            continue
        yield bid, cnd


def _mentions_membership(cnd, src):
    for y, _ in walk(cnd):
        if y.get("k") == "call" and y.get("fn") in ("tpt_get_tp", "tpt_get_current", "tp_thread_get"):
            return True
    return False


def _slot_identity(cnd, src):
    """`tp_thread_get(tp, ...) == src`: src is one of the pool's real thread slots (not the virtual thread, not foreign)"""
    for y, _ in walk(cnd):
        if y.get("k") == "bin" and y["op"] in ("==", "!="):
            a, b = core.strip_casts(y["x"]), core.strip_casts(y["y"])
            for c_, o in ((a, b), (b, a)):
                if c_.get("k") == "call" and c_.get("fn") == "tp_thread_get" and core.is_ref(o, name=src):
                    return True
    return False


def self_membership_rule(rep, u):
    n = 0
    for fname in ("tpt_msg_broadcast_send__int", "tpt_msg_bsend_ex", "tpt_msg_cbsend"):
        fn = tp.need(u, fname)
        rep.functions.add(fname)
        src = fn.params[1]["n"]
        sites = []
        # (a) the pre-decrement of the countdown
        for pos, root, x, ps in fn.nodes():
            st = core.step_of(x)
            if st is not None and st[1] == -1 and key(core.strip_casts(st[0])).endswith("active_thr_count"):
                sites.append((pos, "skip pre-decrement", x.get("ln")))
        # (b) a direct invocation of the user's callback with src as the thread
        cbp = [p["n"] for p in fn.params if p["n"] in ("msg_cb", "done_cb")]
        for pos, root, c, ps in fn.nodes():
            if c.get("k") == "call" and "callee" in c and core.strip_casts(c["callee"]).get("k") == "ref" and core.strip_casts(c["callee"])["n"] in cbp \
                    and c["args"] and core.is_ref(core.strip_casts(c["args"][0]), name=src):
                sites.append((pos, "direct %s(%s, ...)" % (core.strip_casts(c["callee"])["n"], src), c.get("ln")))
        for pos, what, ln in sites:
            # only sites that are conditional on src at all
            conds = [(b, c) for b, c in _cond_blocks_dominating(fn, pos)]
            on_src = [c for b, c in conds if any(y.get("k") == "ref" and y["n"] == src for y, _ in walk(c))]
            if not on_src:
                continue
            n += 1
            member = any(_mentions_membership(c, src) for b, c in conds)
            # or src was normalised before: `if (... tpt_get_tp(src) != tp) src = NULL`
            if not member:
                for p2, r2, x, _ in fn.nodes():
                    if x.get("k") == "bin" and x["op"] == "=" and core.is_ref(core.strip_casts(x["x"]), name=src) and const_val(core.strip_casts(x["y"])) == 0 \
                            and fn.pos_dominates(p2, pos) and any(_mentions_membership(c, src) for b, c in _cond_blocks_dominating(fn, p2)):
                        member = True
            if what == "skip pre-decrement":
                # the decrement stands for the one thread the send loop will skip (`tp_thread_get(tp, i) == src`): its
                # condition must be that very slot identity - the pool's virtual thread belongs to tp too and is never skipped
                slot = any(_slot_identity(c, src) for b, c in conds)
                rep.functions.add(fname)
                (rep.proved if slot else rep.violated)(
                    "R-SELF", fn, "skip-agrees-with-loop", "%s: the skip pre-decrement at line %s is taken exactly when the send loop will skip a slot" % (fname, ln),
                    "slot identity test" if slot else "the condition is not `tp_thread_get(tp, n) == %s`: for the pool's virtual thread (tp_thread_get_pvt) the "
                    "countdown is decremented although no slot is skipped - the synchronous call returns early (stack-use-after-return)" % src, ln)
            desc = "%s: the %s at line %s happens only for an originator that belongs to this pool / is the caller" % (fname, what, ln)
            inst = "self-is-member@%s#%d" % (what.split("(")[0].strip().replace(" ", "-"), n)
            if member:
                rep.proved("R-SELF", fn, inst, desc, "membership test (tpt_get_tp / tpt_get_current) on the way", ln)
            else:
                rep.violated("R-SELF", fn, inst, desc, "decided by `NULL != %s` alone: a thread of another pool is counted as 'self' - the countdown is one short "
                             "while all N threads are sent to, the synchronous call returns early and the last worker writes into the dead stack record "
                             "(stack-use-after-return); in a 1-thread pool the callback runs on the foreign thread" % src, ln)
    return n


def bsend_count_rule(rep, u):
    fn = tp.need(u, "tpt_msg_bsend_ex")
    n = 0
    # direct callback invocations
    for pos, root, c, ps in fn.nodes():
        if c.get("k") == "call" and "callee" in c and core.strip_casts(c["callee"]).get("k") == "ref" and core.strip_casts(c["callee"])["n"] == "msg_cb":
            n += 1
            blk = fn.blocks[pos[0]]
            counted = any(st is not None and st[1] == 1 and key(core.strip_casts(st[0])).endswith("send_msg_cnt")
                          for e in blk.elems for y, _ in walk(e) for st in [core.step_of(y)])
            desc = "tpt_msg_bsend_ex: the callback invoked directly at line %s is counted as sent" % c.get("ln")
            (rep.proved if counted else rep.violated)("R-COUNT", fn, "direct-call-counted", desc, "" if counted else
                                                      "no send_msg_cnt increment next to it: a synchronous broadcast in a 1-thread pool runs the callback "
                                                      "and reports sent = 0, failed = 0 for one targeted thread", c.get("ln"))
    # the single send of the 1-thread branch: both outcomes counted
    ids = core.result_locals(fn, {"tpt_msg_send"})
    for pos, root, c, ps in fn.calls({"tpt_msg_send"}):
        n += 1
        ok_inc = err_inc = False
        for bid in fn.reachable_blocks():
            cnd = fn.blocks[bid].cond
            if cnd is None or not any(y.get("k") == "ref" and y.get("id") in ids for y, _ in walk(cnd)) or not fn.dominates(pos[0], bid):
                continue
            atom = [y for y, _ in walk(cnd) if y.get("k") == "ref" and y.get("id") in ids][0]
            for val, name in ((0, "ok"), (11, "err")):
                s_, known = r_mpt.edge_for_value(fn, bid, cnd, atom, val)
                if not known or s_ is None:
                    continue
                other = [x for x in fn.blocks[bid].rsucc() if x != s_]
                only = fn.reach_from([s_], avoid=other) - (fn.reach_from(other) if other else set())
                for b2 in only | {s_}:
                    if other and b2 in fn.reach_from(other):
                        continue
                    for e in fn.blocks[b2].elems:
                        for y, _ in walk(e):
                            st = core.step_of(y)
                            if st is not None and st[1] == 1:
                                k_ = key(core.strip_casts(st[0]))
                                if name == "ok" and k_.endswith("send_msg_cnt"):
                                    ok_inc = True
                                if name == "err" and k_.endswith("error_cnt"):
                                    err_inc = True
        desc = "tpt_msg_bsend_ex: both outcomes of the single-thread send at line %s are counted" % c.get("ln")
        if ok_inc and err_inc:
            rep.proved("R-COUNT", fn, "single-send-counted", desc, "", c.get("ln"))
        else:
            rep.violated("R-COUNT", fn, "single-send-counted", desc, "%s: with the queue full the call returns EAGAIN and reports sent = 0, failed = 0 (one thread targeted)" %
                         ("the failing outcome is not counted" if ok_inc else "outcomes not counted"), c.get("ln"))
    return n


def sync_self_rule(rep, u, flags):
    fn = tp.need(u, "tpt_msg_bsend_ex")
    n = 0
    for pos, root, c, ps in fn.calls({"tpt_msg_broadcast_send__int"}):
        n += 1
        sets = []
        for p2, r2, x, _ in fn.nodes():
            if x.get("k") == "bin" and x["op"] == "|=" and core.is_ref(core.strip_casts(x["x"]), name="flags") and \
                    (const_val(x["y"]) or 0) & flags["SELF_DIRECT"] and p2[0] in fn.reach_from([fn.entry]) and pos[0] in fn.reach_from([p2[0]]):
                # under a test of the SYNC bit
                if any(any((const_val(y) or 0) == flags["SYNC"] for y, _ in walk(cnd)) for b, cnd in _cond_blocks_dominating(fn, p2)):
                    sets.append(x.get("ln"))
        desc = "tpt_msg_bsend_ex: a synchronous broadcast from a pool thread serves the caller's own copy directly (never through its own queue)"
        (rep.proved if sets else rep.violated)("R-SYNCSELF", fn, "sync-self-direct", desc, ("flags |= SELF_DIRECT at line %s under the SYNC test" % sets[0]) if sets else
                                               "the caller's copy is written to the caller's own queue and the caller then waits for the countdown: "
                                               "N-1 callbacks run and the call never returns (pool of 2, thread 0, TP_BMSG_F_SYNC)", c.get("ln"))
    return n


def sync_waiter_rule(rep, u, flags):
    """the thread that waits in a synchronous broadcast is the calling one, whatever originator is declared (an event callback
    of the pool virtual thread runs on a worker with tp_udata->tpt == pvt): when the caller is a slot of the pool its own copy
    is served directly also for src != caller.  Evaluated: the SELF_DIRECT statement is reached for (src = pvt, caller = slot)."""
    from rules import r_stride
    fn = tp.need(u, "tpt_msg_bsend_ex")
    rep.functions.add(fn.name)
    sets = [(p2, x) for p2, r2, x, _ in fn.nodes() if x.get("k") == "bin" and x["op"] == "|=" and core.is_ref(core.strip_casts(x["x"]), name="flags") and
            (const_val(x["y"]) or 0) & flags["SELF_DIRECT"]]
    desc = "tpt_msg_bsend_ex: a synchronous broadcast called on a pool thread with another originator declared still serves the caller's copy directly"
    if not sets:
        rep.violated("R-SYNCSELF", fn, "sync-waiter-is-caller", desc, "no SELF_DIRECT statement")
        return 1
    res = []
    for declared, what in ((0x3000, "the pool virtual thread"),):
        pe = r_stride.PE(u, call_default={"tp_thread_get": 0x2000, "tpt_get_num": 1, "tpt_get_current": 0x2000, "tp_thread_count_max_get": 4})
        bind = {"tp": 0x1000, "src": declared, "flags": flags["SYNC"], "msg_cb": 0x5000, "udata": 0x6000, "send_msg_cnt": 0, "error_cnt": 0,
                "tpt_get_tp(src)": 0x1000, "tpt_get_tp(cur)": 0x1000, "tpt_get_current()": 0x2000, "tp_thread_count_max_get(tp)": 4}
        got = "no"
        for p2, x in sets:
            r, path = pe.reach_stmt(fn, fn.entry, set(fn.reachable_blocks()), bind, p2[0], fn.blocks[p2[0]].elems[p2[1]])
            if r == "sure":
                got = "sure"
            elif r == "unsure" and got != "sure":
                got = "unsure"
        res.append((what, got))
    bad = [w for w, g in res if g == "no"]
    und = [w for w, g in res if g == "unsure"]
    if bad:
        rep.violated("R-SYNCSELF", fn, "sync-waiter-is-caller", desc, "with %s declared as originator the decision `src == tpt_get_current()` is false: the calling worker's copy goes to "
                     "its own queue and the call never returns (3 of 4 callbacks run)" % bad[0])
    elif und:
        rep.undecided("R-SYNCSELF", fn, "sync-waiter-is-caller", desc, "not evaluable for %s" % und[0])
    else:
        rep.proved("R-SYNCSELF", fn, "sync-waiter-is-caller", desc, "SELF_DIRECT reached for a declared originator other than the caller")
    return 1


def sync_mask_rule(rep, u, flags):
    fa, fb = tp.need(u, "tpt_msg_cbsend"), tp.need(u, "tpt_msg_bsend_ex")
    refused = 0
    for bid in fa.reachable_blocks():
        cnd = fa.blocks[bid].cond
        if cnd is None:
            continue
        for y, _ in walk(cnd):
            if y.get("k") == "bin" and y["op"] == "&" and any(core.is_ref(core.strip_casts(y[s_]), name="flags") for s_ in ("x", "y")):
                m = const_val(core.strip_casts(y["x"])) or const_val(core.strip_casts(y["y"])) or 0
                if m & flags["SYNC"]:
                    refused |= m
    if not refused:
        raise driver.AnalysisBroken("tpt_msg_cbsend: the test that refuses synchronous flags was not found")
    # bits that select the waiting path in bsend_ex: tested directly together with SYNC, or normalised into SYNC
    covered = 0
    for bid in fb.reachable_blocks():
        cnd = fb.blocks[bid].cond
        if cnd is None:
            continue
        for y, _ in walk(cnd):
            if y.get("k") == "bin" and y["op"] == "&" and any(core.is_ref(core.strip_casts(y[s_]), name="flags") for s_ in ("x", "y")):
                m = const_val(core.strip_casts(y["x"])) or const_val(core.strip_casts(y["y"])) or 0
                if m & flags["SYNC"]:
                    covered |= m
                else:
                    # a test of other bits that leads to `flags |= SYNC`
                    for p2, r2, x, _ in fb.nodes():
                        if x.get("k") == "bin" and x["op"] == "|=" and core.is_ref(core.strip_casts(x["x"]), name="flags") and \
                                (const_val(x["y"]) or 0) & flags["SYNC"] and fb.dominates(bid, p2[0]) and p2[0] != bid:
                            covered |= m
    rep.functions.update([fa.name, fb.name])
    desc = "every flag tpt_msg_cbsend refuses as synchronous (0x%x) makes tpt_msg_bsend_ex wait" % refused
    miss = refused & ~covered
    if miss:
        rep.violated("R-SYNCMASK", fb, "sync-flags-agree", desc, "bits 0x%x are never looked at unless TP_BMSG_F_SYNC is set too: TP_BMSG_F_SYNC_USLEEP alone "
                     "('Wait before all thread process message') returns at once with no callback finished" % miss)
    else:
        rep.proved("R-SYNCMASK", fb, "sync-flags-agree", desc, "covered 0x%x" % covered)
    return 1


def obo_sibling_rule(rep, u):
    n = 0
    for fname in ("tpt_msg_cbsend", "tpt_msg_one_by_one_proxy_cb"):
        fn = tp.need(u, fname)
        rep.functions.add(fname)
        for pos, root, c, ps in fn.calls({"tpt_msg_one_by_one_send_next__int"}):
            n += 1
            # on the failing outcome a send with the chain proxy as callback is reachable
            resched = [p2 for p2, r2, c2, _ in fn.calls({"tpt_msg_send"}) if any(key(core.strip_casts(a)) == "tpt_msg_one_by_one_proxy_cb" for a in c2["args"])
                       and p2[0] in fn.reach_from([pos[0]])]
            # the originator is served only when it is a target, i.e. belongs to this pool
            for p2 in resched:
                member = any(any(y.get("k") == "call" and y.get("fn") in ("tpt_get_tp", "tp_thread_get") and
                                 any(("msg_data->tpt" in key(a_)) or any(core.is_ref(z, name="src") for z, _z in walk(a_)) for a_ in y["args"])
                                 for y, _ in walk(cnd)) for b, cnd in _cond_blocks_dominating(fn, p2))
                (rep.proved if member else rep.violated)("R-OBO", fn, "originator-is-target", "%s: the originator is scheduled at the end of the chain only when it belongs to this pool" % fname,
                                                         "" if member else "no membership test: a one-by-one broadcast started from another pool also runs the callback on the "
                                                         "originator and walks on through the originator's own pool (sent = 7 for a pool of 2)", c.get("ln"))
            desc = "%s: when the one-by-one chain cannot be started on any other thread, the targeted calling thread is scheduled itself" % fname
            (rep.proved if resched else rep.violated)("R-OBO", fn, "caller-scheduled-on-chain-failure", desc, "" if resched else
                                                      "the failure path frees the record and returns ESPIPE: with every other thread stopped the running, targeted "
                                                      "caller never gets the callback and done_cb never runs (its sibling tpt_msg_one_by_one_proxy_cb handles this)", c.get("ln"))
    return n


def cbsend_exit_rules(rep, u):
    """plain-mode tail of tpt_msg_cbsend: (a) when nothing was sent (every send failed, or nobody was targeted) no worker will
    ever count down: the record is freed and an error returned, without completion - the same outcome as the one-by-one mode;
    (b) the sender's own count-down does not pass the declared originator as "the current thread" (a completion posted with
    SELF_DIRECT would then run in place on whatever thread is calling)."""
    fn = tp.need(u, "tpt_msg_cbsend")
    rep.functions.add(fn.name)
    ids = core.result_locals(fn, {"tpt_msg_broadcast_send__int"})
    bc = [pos for pos, root, c, ps in fn.calls({"tpt_msg_broadcast_send__int"})]
    if not bc or not ids:
        raise driver.AnalysisBroken("tpt_msg_cbsend: plain-mode broadcast call not found")
    frees = [pos for pos, root, c, ps in fn.calls({"free"}) if fn.pos_dominates(bc[0], pos)]
    ok = False
    for fp in frees:
        for bid, cnd in _cond_blocks_dominating(fn, fp):
            if fn.pos_dominates(bc[0], (bid, 0)) and any(y.get("k") == "ref" and y.get("id") in ids for y, _ in walk(cnd)):
                ok = True
    (rep.proved if ok else rep.violated)("R-NOTARGET", fn, "nothing-sent-exit", "tpt_msg_cbsend: when no message went out the record is freed and an error returned",
                                         "" if ok else "no such exit: a 1-thread pool with SELF_SKIP and an explicit originator returns 0, never completes and leaks the record; "
                                         "with every send failed the call returns ESPIPE and also completes")
    n = 1
    for pos, root, c, ps in fn.calls({"tpt_msg_active_thr_count_dec"}):
        n += 1
        a1 = core.strip_casts(c["args"][1])
        ok2 = const_val(a1) == 0 or (a1.get("k") == "call" and a1.get("fn") == "tpt_get_current")
        (rep.proved if ok2 else rep.violated)("R-CURTHREAD", fn, "countdown-current-thread", "tpt_msg_cbsend: the sender's count-down names the calling thread (NULL = resolve), not the originator",
                                              key(a1) if ok2 else "passes '%s': when the sender is the last to count down, the completion is sent with src == dst, SELF_DIRECT fires and "
                                              "done_cb runs on the calling thread instead of the originator" % key(a1), c.get("ln"))
    return n


def origin_running_rule(rep, u):
    fn = tp.need(u, "tpt_msg_cbsend")
    src = fn.params[1]["n"]
    allocs = [pos for pos, root, c, ps in fn.calls({"calloc", "malloc"})]
    ok = False
    for bid in fn.reachable_blocks():
        cnd = fn.blocks[bid].cond
        if cnd is None or not allocs or not fn.dominates(bid, allocs[0][0]):
            continue
        if any(y.get("k") == "call" and y.get("fn") == "tpt_is_running" and core.is_ref(core.strip_casts(y["args"][0]), name=src) for y, _ in walk(cnd)) and \
                any(allocs[0][0] not in fn.reach_from([s_]) for s_ in fn.blocks[bid].rsucc()):
            ok = True
    desc = "tpt_msg_cbsend: an originator that is not running is refused (the completion cannot run on it)"
    (rep.proved if ok else rep.violated)("R-ORIGIN", fn, "origin-running", desc, "" if ok else
                                         "only a NULL originator is refused: with thread 0 not started the callbacks run, the completion post gets EHOSTDOWN "
                                         "and done_cb runs on a foreign thread or never")
    return 1
