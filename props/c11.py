"""C11 — pool life cycle.

Decided clauses:
  * R-PAIR  every resource stored in a pool/thread/queue field (allocation, epoll fd, pipe ends, queue, thread)
            has a release of that field in a function reachable from tp_destroy; local resources are released on
            every failing exit of tp_create / tpt_msg_queue_create / tpt_data_init
  * R-MPT   the self-join guard (EDEADLK) dominates every join/poll and every release; tp_destroy shuts down
            and waits before it releases anything
  * hooks   one start-hook call before and one stop-hook call after the loop of a worker, neither in a cycle;
            the virtual thread's start hook runs only after its successful initialisation and its stop hook only
            if it was started
  * R-STATE over the four thread states, the set tp_shutdown() messages covers the set tp_shutdown_wait() joins
  * R-RACE  check-then-act / read-modify-write on the shutdown latch without atomicity
Not decided: termination and absence of late callbacks for every schedule.
"""
from rules import driver, core, r_path, r_mpt, r_range
from rules.core import walk, key, const_val
from props import tp

TRUSTED = ["clang 14 front end + CFG builder", "tool/lcbfacts.cc", "rules/core.py", "rules/r_path.py", "python3"]


def call_graph(units):
    g = {}
    for u in units:
        for fn in u.function_list:
            s = g.setdefault(fn.name, set())
            for pos, root, c, ps in fn.calls():
                if c.get("fn"):
                    s.add(c["fn"])
    return g


def reach(g, root):
    seen = set()
    st = [root]
    while st:
        f = st.pop()
        if f in seen:
            continue
        seen.add(f)
        st.extend(g.get(f, ()))
    return seen


ACQ = {
    # call -> how the resource is named: ('assign', None) = lhs of the assignment, ('arg', i) = &field argument
    "calloc": ("assign", None), "epoll_create1": ("assign", None), "tpt_msg_queue_create": ("assign", None),
    "pipe2": ("arg", 0), "pthread_create_eagain": ("arg", 0),
}
REL = {"free": 0, "close": 0, "tpt_msg_queue_destroy": 0, "pthread_join": 0}
REL_FOR = {"calloc": {"free"}, "epoll_create1": {"close"}, "tpt_msg_queue_create": {"tpt_msg_queue_destroy"},
           "pipe2": {"close"}, "pthread_create_eagain": {"pthread_join"}}


def field_suffix(e):
    """'io_fd', 'fd', 'msg_queue', 'pt_id' ... last member name of an lvalue / &lvalue / lvalue[i]"""
    e = core.strip_casts(e)
    while e is not None:
        k = e.get("k")
        if k == "un" and e["op"] == "&":
            e = core.strip_casts(e["e"])
        elif k == "sub":
            e = core.strip_casts(e["b"])
        elif k == "mem":
            return e["f"]
        elif k == "ref":
            return None
        else:
            return None
    return None


def pairing(rep, us):
    units = list(us.values())
    g = call_graph(units)
    from_destroy = reach(g, "tp_destroy")
    acquired = []
    desc_fields = []
    for u in units:
        for fn in u.function_list:
            if fn.relfile() not in (tp.TP_C, tp.MSG_C) or fn.name.startswith("tpt_msg_async") or fn.name == "tpt_msg_cbsend":
                continue
            for pos, root, c, ps in fn.calls(set(ACQ)):
                how, idx = ACQ[c["fn"]]
                tgt = None
                if how == "assign":
                    for lhs, rhs in core.assigned_lhs(root):
                        if any(x is c for x, _ in walk(rhs)):
                            tgt = lhs
                else:
                    tgt = c["args"][idx]
                if tgt is None:
                    continue
                f = field_suffix(tgt)
                store_pos = pos
                t0 = core.strip_casts(tgt)
                if f is None and how == "assign" and t0.get("k") == "ref" and t0.get("dk") == "local":
                    # result kept in a local first: follow it into the field it is copied to
                    lid = t0.get("id")
                    for p2, r2, x2, ps2 in fn.nodes():
                        if x2.get("k") == "bin" and x2["op"] == "=" and core.is_ref(core.strip_casts(x2["y"]), id=lid) and \
                                field_suffix(x2["x"]) is not None:
                            f = field_suffix(x2["x"])
                            t0 = core.strip_casts(x2["x"])
                            store_pos = p2
                            break
                acquired.append((fn, c, f, t0))
                if f is not None and c["fn"] == "epoll_create1":
                    desc_fields.append((fn, c, f, pos, store_pos))
    # a descriptor field that the uninit path closes without a validity test must hold the call's result (or its -1) on
    # every exit of the acquiring function: the object was zeroed before, and 0 is somebody else's valid descriptor
    for fn, c, f, cpos, spos in desc_fields:
        guarded = False
        for u in units:
            for rf in u.function_list:
                if rf.name in from_destroy:
                    for pos, root, rc, ps in rf.calls({"close"}):
                        if field_suffix(rc["args"][0]) == f:
                            for bid, cnd, atom in r_mpt.branches_with(rf, lambda x, ps_: x.get("k") == "mem" and x.get("f") == f):
                                guarded = True
        exits = [pos for pos, root, x, ps in fn.nodes() if x.get("k") == "ret" and x is root and cpos[0] in fn.reachable_blocks() and
                 (pos[0] in fn.reach_from([cpos[0]]) or pos[0] == cpos[0])]
        desc = "the descriptor field '%s' holds the result of %s() on every exit of %s (it is closed without a validity test)" % (f, c["fn"], fn.name)
        rep.functions.add(fn.name)
        if guarded:
            rep.proved("R-PAIR", fn, "defined:%s" % f, desc, "the release tests the field first", c["ln"])
        elif all(fn.pos_dominates(spos, e) for e in exits) and exits:
            rep.proved("R-PAIR", fn, "defined:%s" % f, desc, "the store dominates all %d exits after the call" % len(exits), c["ln"])
        else:
            bad = [e for e in exits if not fn.pos_dominates(spos, e)]
            rep.violated("R-PAIR", fn, "defined:%s" % f, desc, "an exit after the call (line %s) is reached without the store: the field keeps the zero of the "
                         "preceding memset, and the error path closes descriptor 0" % (fn.blocks[bad[0][0]].elems[bad[0][1]].get("ln") if bad else "?"), c["ln"])
    n = 0
    for fn, c, f, tgt in acquired:
        if f is None:
            continue    # local: handled by the path rule
        n += 1
        rep.functions.add(fn.name)
        rels = []
        for u in units:
            for rf in u.function_list:
                if rf.name not in from_destroy:
                    continue
                for pos, root, rc, ps in rf.calls(REL_FOR[c["fn"]]):
                    if field_suffix(rc["args"][0]) == f:
                        rels.append(rf.name)
        desc = "%s() result kept in field '%s' is released (%s) on the tp_destroy path" % (c["fn"], f, "/".join(sorted(REL_FOR[c["fn"]])))
        # pipe2 fills two descriptors: both must be closed
        if c["fn"] == "pipe2":
            idxs = set()
            for u in units:
                for rf in u.function_list:
                    if rf.name in from_destroy:
                        for pos, root, rc, ps in rf.calls({"close"}):
                            a = core.strip_casts(rc["args"][0])
                            if field_suffix(a) == f and a.get("k") == "sub":
                                idxs.add(const_val(a["i"]))
            if idxs >= {0, 1}:
                rep.proved("R-PAIR", fn, "%s->%s" % (c["fn"], f), desc, "both ends closed in %s" % sorted(set(rels)), c["ln"])
            else:
                rep.violated("R-PAIR", fn, "%s->%s" % (c["fn"], f), desc, "closed ends: %s" % sorted(x for x in idxs if x is not None), c["ln"])
            continue
        if rels:
            rep.proved("R-PAIR", fn, "%s->%s" % (c["fn"], f), desc, "released in %s" % sorted(set(rels)), c["ln"])
        else:
            rep.violated("R-PAIR", fn, "%s->%s" % (c["fn"], f), desc, "no release of this field reachable from tp_destroy", c["ln"])
    return n


def local_error_paths(rep, u, fname, acq_call, var_hint, release_calls, ok_ret_zero=True):
    """after a successful acquisition into a local, every path to a failing return releases it"""
    fn = tp.need(u, fname)
    rep.functions.add(fname)
    sites = [(pos, root, c) for pos, root, c, ps in fn.calls({acq_call})]
    if not sites:
        rep.violated("R-PAIR", fn, "local:" + acq_call, "acquisition site present", "missing")
        return 0
    pos, root, c = sites[0]
    var = None
    for lhs, rhs in core.assigned_lhs(root):
        var = core.strip_casts(lhs)
    paths = r_path.enum_paths(fn, pos[0], max_paths=20000)
    leaks = []
    for p in paths:
        released = False
        failed_acq = False
        ret = None
        for ev in r_path.events(fn, p):
            if ev[0] == "elem":
                if ev[1][0] == pos[0] and ev[1][1] <= pos[1]:
                    continue
                for x, _ in walk(ev[2]):
                    if x.get("k") == "call" and x.get("fn") in release_calls and var is not None and \
                            any(core.is_ref(a, id=var["id"]) for a in x["args"]):
                        released = True
                if ev[2].get("k") == "ret":
                    ret = ev[2]
            else:
                _, b, cond, truth = ev
                c0 = core.strip_imp(cond)
                if var is not None and c0.get("k") == "bin" and c0["op"] in ("==", "!=") and \
                        {key(core.strip_casts(c0["x"])), key(core.strip_casts(c0["y"]))} == {"0", var["n"]}:
                    isnull = truth if c0["op"] == "==" else not truth
                    if isnull:
                        failed_acq = True
        if ret is None or failed_acq:
            continue
        rv = ret.get("e")
        success = (rv is not None and ((const_val(rv) == 0 and core.strip_imp(rv).get("k") != "ref" and ok_ret_zero and
                                        fn.unit.type(fn.ret)["k"] == "int") or
                                       (var is not None and core.is_ref(rv, id=var["id"]))))
        if success:
            continue
        if not released:
            leaks.append(ret["ln"])
    desc = "%s: every failing exit after %s() succeeded releases the object" % (fname, acq_call)
    if leaks:
        rep.violated("R-PAIR", fn, "local:" + acq_call, desc, "failing return(s) at line(s) %s without %s" % (
            sorted(set(leaks)), "/".join(sorted(release_calls))))
    else:
        rep.proved("R-PAIR", fn, "local:" + acq_call, desc, "%d paths from the acquisition" % len(paths))
    return len(paths)


def descriptor_error_paths(rep, u, fname="tpt_msg_queue_create", acq_call="pipe2", field="fd"):
    """after pipe2() filled <obj>->fd[], every failing exit closes both descriptors - directly or through a repository function
    whose body closes both - before the record that holds them is freed"""
    fn = tp.need(u, fname)
    rep.functions.add(fname)
    sites = [(pos, root, c) for pos, root, c, ps in fn.calls({acq_call})]
    if len(sites) != 1:
        raise driver.AnalysisBroken("%s: expected one %s() call" % (fname, acq_call))
    pos, root, call = sites[0]
    holder = None
    for x, _ in walk(call["args"][0]):
        if x.get("k") == "mem" and x.get("f") == field:
            holder = core.strip_casts(x["b"])
    if holder is None or holder.get("k") != "ref":
        raise driver.AnalysisBroken("%s: %s() does not fill a record field '%s'" % (fname, acq_call, field))

    def closes_both(f):
        idx = set()
        for _p, _r, c, _ps in f.calls({"close"}):
            a = core.strip_casts(c["args"][0])
            if a.get("k") == "sub" and core.strip_casts(a["b"]).get("k") == "mem" and core.strip_casts(a["b"]).get("f") == field:
                idx.add(const_val(a["i"]))
        return {0, 1} <= idx
    closers = {f.name for f in u.function_list if f.has_cfg and f.name != fname and closes_both(f)}
    paths = r_path.enum_paths(fn, pos[0], max_paths=20000)
    leaks = []
    n = 0
    for p in paths:
        closed = set()
        failed_acq = False
        ret = None
        for ev in r_path.events(fn, p):
            if ev[0] == "elem":
                for x, _ in walk(ev[2]):
                    if x.get("k") == "call" and x.get("fn") in closers and any(core.is_ref(core.strip_casts(a), id=holder["id"]) for a in x["args"]):
                        closed |= {0, 1}
                    if x.get("k") == "call" and x.get("fn") == "close":
                        a = core.strip_casts(x["args"][0])
                        if a.get("k") == "sub" and field in key(a):
                            closed.add(const_val(a["i"]))
                if ev[2].get("k") == "ret":
                    ret = ev[2]
            else:
                _, b, cond, truth = ev
                if any(x is call for x, _ in walk(cond)):
                    try:
                        v_fail = bool(r_mpt.eval_expr(cond, {id(call): -1}))
                        v_ok = bool(r_mpt.eval_expr(cond, {id(call): 0}))
                    except r_mpt.Unknown:
                        raise driver.AnalysisBroken("%s: the test of %s() is not evaluable" % (fname, acq_call))
                    if v_fail != v_ok and truth == v_fail:
                        failed_acq = True
        if ret is None or failed_acq:
            continue
        n += 1
        rv = ret.get("e")
        if rv is not None and core.is_ref(core.strip_casts(rv), id=holder["id"]):
            continue                      # the record (with its descriptors) is handed to the caller
        if not {0, 1} <= closed:
            leaks.append(ret["ln"])
    desc = "%s: every failing exit after %s() succeeded closes both descriptors" % (fname, acq_call)
    if leaks:
        rep.violated("R-PAIR", fn, "local:" + acq_call, desc, "failing return(s) at line(s) %s reached without close() of both %s[] entries "
                     "(closing functions known: %s): two descriptors leak per failed call" % (sorted(set(leaks)), field, sorted(closers) or "none"))
    else:
        rep.proved("R-PAIR", fn, "local:" + acq_call, desc, "%d paths after the successful %s()" % (n, acq_call))
    return n


def rollback_rule(rep, u):
    """R-ROLLBACK: a function that marks a thread slot as in use (stores a state other than STOP) and then fails must take the
    mark back: from such a store no failing return is reachable without passing another store to the same field or a call
    that tears the object down.  A slot left STARTING by a refused attach is joined by tp_shutdown_wait() although no
    thread ever ran in it - with the caller's own thread id that is the EDEADLK refusal, so the pool can never be
    released."""
    states = tp.probe(tp.TP_C, {"STOP": "TP_THREAD_STATE_STOP"}, "probe:tpstate-stop")
    if states.get("STOP") is None:
        raise driver.AnalysisBroken("TP_THREAD_STATE_STOP not foldable")
    n = 0
    for fn in u.function_list:
        if fn.relfile() != tp.TP_C or not fn.has_cfg or fn.unit.type(fn.ret)["k"] != "int":
            continue
        stores = []
        for pos, root, x, ps in fn.nodes():
            if x.get("k") == "bin" and x["op"] == "=" and core.strip_casts(x["x"]).get("k") == "mem" and core.strip_casts(x["x"]).get("f") in ("state", "created"):
                stores.append((pos, x))
        fails = [pos for pos, r in fn.returns() if const_val(r.get("e")) not in (None, 0)]
        # `if (0 != error) { ...; return (error); }`: a returned status variable on the true edge of its own non-zero test
        for pos, r in fn.returns():
            e = core.strip_casts(r.get("e")) if r.get("e") is not None else None
            if e is None or e.get("k") != "ref" or const_val(e) is not None:
                continue
            for q in fn.reachable_blocks():
                cq = fn.blocks[q].cond
                if cq is None or not fn.blocks[q].succ or fn.blocks[q].succ[0] is None:
                    continue
                t = fn.blocks[q].succ[0]
                if not (t == pos[0] or fn.dominates(t, pos[0])) or len(fn.blocks[q].succ) < 2 or fn.blocks[q].succ[1] == t:
                    continue
                cc = core.strip_casts(cq)
                if cc.get("k") == "bin" and cc["op"] == "!=" and {const_val(cc["x"]), const_val(cc["y"])} & {0} and \
                        any(core.strip_casts(cc[s_]).get("k") == "ref" and core.strip_casts(cc[s_]).get("id") == e.get("id") for s_ in ("x", "y")):
                    fails.append(pos)
                    break
        for pos, x in stores:
            if const_val(x["y"]) == (states["STOP"] if core.strip_casts(x["x"]).get("f") == "state" else 0):
                continue
            n += 1
            rep.functions.add(fn.name)
            # blocks that re-store the field or tear the object down stop the search
            stop = set()
            for p2, x2 in stores:
                if p2 != pos and core.strip_casts(x2["x"]).get("f") == core.strip_casts(x["x"]).get("f"):
                    stop.add(p2)
            for p2, r2, c, _ in fn.calls({"tp_destroy", "tp_thread_dettach", "tpt_data_uninit"}):
                stop.add(p2)
            bad = None
            seen = set()
            work = [(pos[0], pos[1] + 1)]
            while work and bad is None:
                b, i0 = work.pop()
                if (b, i0) in seen:
                    continue
                seen.add((b, i0))
                blocked = False
                for i in range(i0, len(fn.blocks[b].elems)):
                    if (b, i) in stop:
                        blocked = True
                        break
                    if (b, i) in fails:
                        bad = fn.blocks[b].elems[i].get("ln")
                        break
                if blocked or bad:
                    continue
                for s_ in fn.blocks[b].rsucc():
                    work.append((s_, 0))
            desc = "%s: after marking the slot (%s = %s at line %s) no failing return is reached with the mark in place" % (
                fn.name, key(x["x"]), key(x["y"])[:40], x.get("ln"))
            if bad:
                rep.violated("R-ROLLBACK", fn, "state-mark#%d" % (1 + sum(1 for p2, _x2 in stores if p2 < pos)), desc, "the failing return at line %s follows without restoring the state: the slot "
                             "stays marked although no thread runs in it, and shutdown/join will wait for (or refuse to join) it" % bad, x.get("ln"))
            else:
                rep.proved("R-ROLLBACK", fn, "state-mark#%d" % (1 + sum(1 for p2, _x2 in stores if p2 < pos)), desc, "", x.get("ln"))
    return n


def guards(rep, u):
    n = 0
    for fname in ("tp_shutdown_wait", "tp_destroy"):
        fn = tp.need(u, fname)
        rep.functions.add(fname)
        tg = [pos for pos, root, c, ps in fn.calls({"pthread_join", "nanosleep", "tpt_data_uninit", "free", "tp_shutdown_wait"})]
        r_mpt.check_guard(rep, fn, "tp_thread_is_tp_thr()", r_mpt.call_atom("tp_thread_is_tp_thr", [None, None]), (0, 1), (0,),
                          targets=tg, target_desc="join / wait / release", require_dominance=True)
        n += 1
    fd = tp.need(u, "tp_destroy")
    sh = [pos for pos, root, c, ps in fd.calls({"tp_shutdown"})]
    wt = [pos for pos, root, c, ps in fd.calls({"tp_shutdown_wait"})]
    rl = [pos for pos, root, c, ps in fd.calls({"tpt_data_uninit", "free"})]
    ok = sh and wt and rl and fd.pos_dominates(sh[0], wt[0]) and all(fd.pos_dominates(wt[0], r) for r in rl)
    (rep.proved if ok else rep.violated)("R-MPT", fd, "shutdown-wait-release", "tp_destroy requests shutdown, waits for the threads, and only then releases")
    # a failed wait does not release
    res_ids = core.result_locals(fd, {"tp_shutdown_wait"})
    r_mpt.check_guard(rep, fd, "tp_shutdown_wait()==0",
                      lambda x, ps: (x.get("k") == "ref" and x.get("id") in res_ids) or (x.get("k") == "call" and x.get("fn") == "tp_shutdown_wait"),
                      (0, 16), (0,), targets=rl, target_desc="release", require_dominance=True)
    return n + 2


def hooks(rep, u):
    fn = tp.need(u, "tp_thread_proc")
    rep.functions.add(fn.name)

    def hook_calls(f, name):
        return [pos for pos, root, c, ps in f.nodes() if c.get("k") == "call" and "callee" in c and key(c["callee"]).endswith(name)]
    st, sp = hook_calls(fn, "tpt_on_start"), hook_calls(fn, "tpt_on_stop")
    lp = [pos for pos, root, c, ps in fn.calls({"tpt_loop"})]
    ok = len(st) == 1 and len(sp) == 1 and len(lp) == 1
    why = "start sites %d, stop sites %d, loop calls %d" % (len(st), len(sp), len(lp))
    if ok:
        cyc = any(p[0] in fn.reach_from(fn.blocks[p[0]].rsucc()) for p in (st[0], sp[0], lp[0]))
        before = lp[0][0] in fn.reach_from([st[0][0]]) and st[0][0] not in fn.reach_from(fn.blocks[lp[0][0]].rsucc())
        after = sp[0][0] in fn.reach_from(fn.blocks[lp[0][0]].rsucc()) or (sp[0][0] == lp[0][0] and sp[0][1] > lp[0][1])
        after = after and lp[0][0] not in fn.reach_from(fn.blocks[sp[0][0]].rsucc())
        # the hooks are skipped only by their own NULL test
        def only_null_guard(hpos, anchor_pos, forward, field):
            # branch block whose condition mentions the hook field and that dominates the hook call
            for bid, c, atom in r_mpt.branches_with(fn, lambda x, ps: x.get("k") == "mem" and x["f"] == field):
                if fn.dominates(bid, hpos[0]):
                    return fn.pos_dominates(anchor_pos, (bid, 0)) if forward else fn.pos_dominates((bid, 0), anchor_pos)
            return False
        g1 = only_null_guard(st[0], lp[0], False, "tpt_on_start")
        g2 = only_null_guard(sp[0], lp[0], True, "tpt_on_stop")
        ok = (not cyc) and before and after and g1 and g2
        why = "cycle=%s start-before-loop=%s stop-after-loop=%s null-guards=%s/%s" % (cyc, before, after, g1, g2)
    (rep.proved if ok else rep.violated)("R-MPT", fn, "worker-hooks",
                                         "a worker runs the start hook once before the loop and the stop hook once after it", why)
    # pvt start hook only after successful init
    fc = tp.need(u, "tp_create")
    rep.functions.add(fc.name)
    st = hook_calls(fc, "tpt_on_start")
    inits = [pos for pos, root, c, ps in fc.calls({"tpt_data_init"})]
    ok = len(st) == 1 and inits
    if ok:
        first = sorted(inits, key=lambda p: (-p[0], p[1]))[0]
        ok = fc.pos_dominates(first, st[0])
        # error edge of the first init cannot reach the hook
        gd = False
        st_ids = core.result_locals(fc, {"tpt_data_init", "tpt_data_event_init", "tp_thread_attach_first", "tpt_msg_queue_create", "tp_threads_create"})
        for bid, c, atom in r_mpt.branches_with(fc, lambda x, ps: x.get("k") == "ref" and x.get("id") in st_ids):
            if fc.dominates(first[0], bid) and fc.dominates(bid, st[0][0]):
                s, kn = r_mpt.edge_for_value(fc, bid, c, atom, 22)
                if kn and not r_mpt.can_reach(fc, s, [st[0]], avoid=[bid]):
                    gd = True
        ok = ok and gd
    (rep.proved if ok else rep.violated)("R-MPT", fc, "pvt-start-hook", "the virtual thread's start hook runs only after its successful initialisation")
    # pvt stop hook only if it was started: the start path stores a state, the stop path must test it
    fs = tp.need(u, "tp_shutdown")
    rep.functions.add(fs.name)
    sp = hook_calls(fs, "tpt_on_stop")
    started_store = [x for pos, root, x, ps in fc.nodes() if x.get("k") == "bin" and x["op"] == "=" and key(x["x"]).endswith("pvt->state")]
    ok = len(sp) == 1 and started_store
    why = ""
    if ok:
        sv = const_val(started_store[0]["y"])
        gd = False
        for bid, c, atom in r_mpt.branches_with(fs, lambda x, ps: x.get("k") == "mem" and x["f"] == "state" and "pvt" in key(x)):
            if not fs.dominates(bid, sp[0][0]):
                continue
            s1, k1 = r_mpt.edge_for_value(fs, bid, c, atom, sv)
            s0, k0 = r_mpt.edge_for_value(fs, bid, c, atom, 0)
            if k1 and k0 and r_mpt.can_reach(fs, s1, sp, avoid=[bid]) and not r_mpt.can_reach(fs, s0, sp, avoid=[bid]):
                gd = True
        ok = gd
        why = "no test of pvt->state (set to %s by tp_create before the start hook) guards the stop hook" % sv if not gd else "guarded by pvt->state"
    (rep.proved if ok else rep.violated)("R-PAIR", fs, "pvt-stop-hook-only-if-started",
                                         "the virtual thread's stop hook runs only if its start hook ran (tp_create may fail before it)", why)
    # ... and if it ran, the stop hook will run: once the start hook may have been called, the 'started' state is already
    # stored on every path that can still fail (the store dominates the hook, or no path from the hook to tp_destroy avoids it)
    st = hook_calls(fc, "tpt_on_start")
    stores = [pos for pos, root, x, ps in fc.nodes() if x.get("k") == "bin" and x["op"] == "=" and key(x["x"]).endswith("pvt->state")]
    destroys = [pos for pos, root, c, ps in fc.calls({"tp_destroy", "tp_shutdown"})]
    ok2 = len(st) == 1 and bool(stores) and bool(destroys)
    why2 = "hook sites %d, state stores %d, failing exits %d" % (len(st), len(stores), len(destroys))
    if ok2:
        if any(fc.pos_dominates(sp_, st[0]) for sp_ in stores):
            why2 = "the state store dominates the start hook"
        else:
            r = fc.reach_from(fc.blocks[st[0][0]].rsucc(), avoid=[p_[0] for p_ in stores])
            leak = [d for d in destroys if d[0] in r]
            ok2 = not leak
            why2 = ("the failing exit at line %s is reachable after the start hook without the state store: tp_shutdown will skip the stop hook" %
                    fc.blocks[leak[0][0]].elems[leak[0][1]].get("ln")) if leak else "every path from the hook to a failing exit passes the state store"
    # ... and conversely: once the 'started' state is stored, no failing exit is reachable before the start hook had its
    # chance (the NULL test of the hook pointer counts as that chance)
    if len(st) == 1 and stores and destroys:
        guards_ = [bid for bid, c_, atom_ in r_mpt.branches_with(fc, lambda x, ps: x.get("k") == "mem" and x["f"] == "tpt_on_start")
                   if fc.dominates(bid, st[0][0])]
        anchor = set(guards_) | {st[0][0]}
        okc = True
        whyc = "every path from the state store to a failing exit passes the start hook (or its NULL test)"
        for sp_ in stores:
            if fc.pos_dominates(st[0], sp_):
                continue          # store after the hook: covered by the rule above
            r = fc.reach_from(fc.blocks[sp_[0]].rsucc(), avoid=list(anchor)) if sp_[0] not in anchor else set()
            leak = [d for d in destroys if d[0] in r]
            if leak:
                okc = False
                whyc = "the failing exit at line %s is reachable after the 'started' state was stored at line %s but before the start hook: " \
                       "tp_shutdown will run the stop hook for a thread whose start hook never ran" % (
                           fc.blocks[leak[0][0]].elems[leak[0][1]].get("ln"), fc.blocks[sp_[0]].elems[sp_[1]].get("ln"))
        (rep.proved if okc else rep.violated)("R-PAIR", fc, "pvt-no-failing-exit-between-state-and-hook",
                                              "the 'started' state of the virtual thread is stored only where its start hook runs before any failure of tp_create", whyc)
    (rep.proved if ok2 else rep.violated)("R-PAIR", fc, "pvt-started-before-failing-exits",
                                          "once the virtual thread's start hook has run, every later failure of tp_create finds the state that makes tp_shutdown run the stop hook", why2)
    # latch
    def latch_atom(x, ps):
        def is_atomic_call(y):
            return y.get("k") == "call" and ((y.get("fn") or "").startswith("__sync_") or (y.get("fn") or "").startswith("__atomic_"))
        if is_atomic_call(x):
            return any(z.get("k") == "mem" and z["f"] == "shutdown" for a in x["args"] for z, _ in walk(a))
        if x.get("k") == "mem" and x["f"] == "shutdown":
            return not any(is_atomic_call(p_) for p_ in ps)
        return False
    r_mpt.check_guard(rep, fs, "tp->shutdown latch", latch_atom,
                      (0, 1), (0,), targets=sp + [pos for pos, root, c, ps in fs.calls({"tpt_msg_send"})],
                      target_desc="stop hook / shutdown message", require_dominance=True)


def state_filters(rep, u, stop_joinable=False):
    """R-STATE: over the finite set of thread states, every thread that tp_shutdown_wait() will join was sent the
    stop message by tp_shutdown() (or is already stopping).  The two filters are evaluated state by state; the
    helper predicate tpt_is_running() is evaluated from its own return expression."""
    states = tp.probe(tp.TP_C, {n: "TP_THREAD_STATE_" + n for n in ("STOP", "STOPING", "STARTING", "RUNNING")}, "probe:tpstate")
    if any(v is None for v in states.values()):
        raise driver.AnalysisBroken("thread state constants not evaluable")
    fr = tp.need(u, "tpt_is_running")

    def is_running(sv):
        rets = [r for pos, r in fr.returns() if not (const_val(r.get("e")) == 0 and core.strip_casts(r.get("e")).get("k") == "int")]
        if not rets:
            return None
        e = core.strip_casts(rets[-1]["e"])
        if e.get("k") == "lazy":
            e = e["lz"]

        def hook(n_, rec):
            if n_.get("k") == "mem" and n_["f"] == "state":
                return sv
            if n_.get("k") == "lazy":
                return rec(n_["lz"])
            return None
        try:
            return r_mpt.eval_expr(e, {}, hook)
        except r_mpt.Unknown:
            return None

    def passes(fn, targets, sv):
        """can a thread in state sv reach one of the target calls in the per-thread loop of fn?"""
        verdict = None
        for bid in fn.reachable_blocks():
            c = fn.blocks[bid].cond
            if c is None or len(fn.blocks[bid].succ) != 2:
                continue
            mentions = [x for x, _ in walk(c) if (x.get("k") == "mem" and x["f"] == "state" and "threads" in key(x)) or
                        (x.get("k") == "call" and x.get("fn") == "tpt_is_running")]
            if not mentions:
                continue

            def hook(n_, rec):
                if n_.get("k") == "call" and n_.get("fn") == "tpt_is_running":
                    return is_running(sv)
                if n_.get("k") == "mem" and n_["f"] == "state":
                    return sv
                return None
            try:
                v = r_mpt.eval_expr(c, {}, hook)
            except (r_mpt.Unknown, TypeError):
                return None
            s_ = fn.blocks[bid].succ[0] if v else fn.blocks[bid].succ[1]
            ok = r_mpt.can_reach(fn, s_, targets, avoid=[bid])
            verdict = ok if verdict is None else (verdict and ok)
        return verdict
    fs, fw = tp.need(u, "tp_shutdown"), tp.need(u, "tp_shutdown_wait")
    sends = [pos for pos, root, c, ps in fs.calls({"tpt_msg_send"})]
    joins = [pos for pos, root, c, ps in fw.calls({"pthread_join"})]
    bad = []
    tbl = {}
    for nm, sv in states.items():
        m, j = passes(fs, sends, sv), passes(fw, joins, sv)
        tbl[nm] = (m, j)
        if m is None or j is None:
            bad.append("%s: filter not evaluable" % nm)
        elif j and not m and nm == "STOP" and stop_joinable:
            pass        # the join is conditional on a joiner-owned 'created' mark (R-JOIN): a STOP slot that is joined has a finished thread
        elif j and not m and nm != "STOPING":
            bad.append("a thread in state %s is joined by tp_shutdown_wait() but never told to stop by tp_shutdown()" % nm)
    desc = "every thread state that tp_shutdown_wait() joins is sent the stop message by tp_shutdown() (STOPING excepted)"
    if bad:
        rep.violated("R-STATE", fs, "messaged-covers-joined", desc, "; ".join(bad))
    else:
        rep.proved("R-STATE", fs, "messaged-covers-joined", desc, "state -> (messaged, joined): %s" % tbl)


def race(rep, u):
    """check-then-act / read-modify-write on life-cycle latches without atomics or a lock"""
    n = 0
    fields = {"shutdown"}
    for fn in u.function_list:
        for pos, root, x, ps in fn.nodes():
            isrmw = (x.get("k") == "un" and x["op"] in ("post++", "pre++", "post--", "pre--") and
                     core.strip_casts(x["e"]).get("k") == "mem" and core.strip_casts(x["e"])["f"] in fields)
            isrmw = isrmw or (x.get("k") == "bin" and x["op"] in ("+=", "-=", "|=") and core.strip_casts(x["x"]).get("k") == "mem"
                              and core.strip_casts(x["x"])["f"] in fields)
            if not isrmw:
                continue
            n += 1
            rep.functions.add(fn.name)
            f = (core.strip_casts(x.get("e") or x.get("x")))["f"]
            rep.violated("R-RACE", fn, "rmw:" + f, "the life-cycle latch '%s' is updated atomically" % f,
                         "plain read-modify-write at line %s after an unsynchronised test: two concurrent callers can both pass "
                         "the test and both run the stop hook and post shutdown messages" % x["ln"], x["ln"])
        for pos, root, c, ps in fn.calls():
            nm = c.get("fn") or ""
            if nm.startswith("__sync_") or nm.startswith("__atomic_"):
                if any(core.strip_casts(y).get("k") == "mem" and core.strip_casts(y)["f"] in fields for a in c["args"] for y, _ in walk(a)):
                    n += 1
                    rep.functions.add(fn.name)
                    rep.proved("R-RACE", fn, "atomic:" + nm, "the life-cycle latch is updated atomically", "%s at line %s" % (nm, c["ln"]), c["ln"])
    return n


def run(rep, tier):
    us = tp.units((tp.TP_C, tp.MSG_C))
    rep.use_units(us)
    u, um = us[tp.TP_C], us[tp.MSG_C]
    n = pairing(rep, us)
    rep.floor("field resources", n, 4)
    # the self-join guard (EDEADLK) asks tpt_get_current(): an OS thread that has left the pool must not keep a pool identity,
    # or every later tp_shutdown_wait()/tp_destroy() from it is refused and the pool is never released (rule shared with C05)
    from props import c05
    rep.floor("TLS identity stores", c05.tls_identity(rep, u), 1)
    a = local_error_paths(rep, u, "tp_create", "calloc", "tp", {"tp_destroy", "free"})
    b = local_error_paths(rep, um, "tpt_msg_queue_create", "calloc", "msg_queue", {"free", "tpt_msg_queue_destroy"})
    rep.floor("tp_create paths", a, 4)
    rep.floor("tpt_msg_queue_create paths", b, 3)
    rep.floor("paths after a successful pipe2", descriptor_error_paths(rep, um), 2)
    rep.floor("slot state marks in status functions", rollback_rule(rep, u), 1)    # (2 while tp_thread_dettach stored STOPING plainly; it is a CAS now)
    # tpt_data_init: failing event init must undo what was created
    fi = tp.need(u, "tpt_data_init")
    rep.functions.add(fi.name)
    ev = [pos for pos, root, c, ps in fi.calls({"tpt_data_event_init"})]
    un = [pos for pos, root, c, ps in fi.calls({"tpt_data_uninit"})]
    ok = False
    if ev and un:
        ev_ids = core.result_locals(fi, {"tpt_data_event_init"})
        for bid, c, atom in r_mpt.branches_with(fi, lambda x, ps: x.get("k") == "ref" and x.get("id") in ev_ids):
            s1, k1 = r_mpt.edge_for_value(fi, bid, c, atom, 22)
            s0, k0 = r_mpt.edge_for_value(fi, bid, c, atom, 0)
            if k1 and k0 and r_mpt.can_reach(fi, s1, un, avoid=[bid]) and not r_mpt.can_reach(fi, s0, un, avoid=[bid]):
                # and the failing edge cannot return without passing the undo
                from props.c06 import must_pass
                ok = must_pass(fi, s1, un, [(fi.exit, 0)], avoid=[bid])
    (rep.proved if ok else rep.violated)("R-PAIR", fi, "init-failure-undone", "a failed thread-data initialisation releases what it created before returning the error")
    guards(rep, u)
    hooks(rep, u)
    from props import c11_audit
    nj = c11_audit.join_guard_rule(rep, u)
    rep.floor("pthread_join sites", nj, 1)
    state_filters(rep, u, stop_joinable=any(o.key == "join-guard" and o.status == "proved" for o in rep.obs))
    rep.floor("thread creation sites", c11_audit.create_status_rule(rep, u), 1)
    rep.floor("file-scope pool pointers", c11_audit.dangling_global_rule(rep, u), 1)
    rep.floor("multiplied allocation sizes", c11_audit.alloc_wrap_rule(rep, u), 1)
    fl = tp.probe(tp.MSG_C, {"FAIL_DIRECT": "TP_MSG_F_FAIL_DIRECT", "FORCE": "TP_MSG_F_FORCE"}, "probe:msgflags")
    if any(v is None for v in fl.values()):
        raise driver.AnalysisBroken("TP_MSG_F_* not foldable")
    rep.floor("sends whose status is discarded", c11_audit.discarded_send_rule(rep, [u, um], fl), 2)
    st2 = tp.probe(tp.TP_C, {n_: "TP_THREAD_STATE_" + n_ for n_ in ("STARTING", "RUNNING", "STOP")}, "probe:tpstate3")
    rep.floor("slot state transitions", c11_audit.slot_state_rule(rep, u, st2), 3)
    c11_audit.shutdown_done_rule(rep, u)
    c11_audit.fd_packing_rule(rep)
    rep.floor("STOP stores of the thread procedure", c11_audit.last_access_rule(rep, u, st2), 1)
    c11_audit.pvt_drain_rule(rep, us)
    rep.floor("descriptor sentinel tests", c11_audit.fd_sentinel_rule(rep, u), 4)
    st4 = tp.probe(tp.TP_C, {"STOPING": "TP_THREAD_STATE_STOPING"}, "probe:tpstate4")
    if st4.get("STOPING") is None:
        raise driver.AnalysisBroken("TP_THREAD_STATE_STOPING not foldable")
    rep.floor("STOPING stores of the detach entry", c11_audit.detach_wake_rule(rep, u, st4), 3)
    race(rep, u)
    return driver.finish(
        rep, "other",
        "Static analysis of threadpool.c / threadpool_msg_sys.c (Linux branch). Decided: every field-held resource has a release "
        "on the tp_destroy path; failing exits of the constructors release their local resources; the EDEADLK guard dominates all "
        "joins/releases and a failed wait releases nothing; hooks bracket the worker loop exactly once and the virtual thread's "
        "hooks are conditional on its initialisation; the shutdown latch is atomic. NOT decided: termination and absence of late "
        "callbacks for every schedule.",
        ["direct-call graph (function pointers are the user hooks/callbacks only)"], TRUSTED)
