def run(rep, specs, us, tier):
    pass
