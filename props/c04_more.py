"""C04 additional structural rules: carry chains of the multi-limb adders used by the hashes."""
from rules import driver, r_carry


def run(rep, specs, us, tier):
    n = 0
    for (h, lab, s) in specs:
        u = us[s.label]
        for fn in u.function_list:
            if fn.relfile().startswith("include/crypto/hash/") and not fn.name.endswith("self_test"):
                k = r_carry.check(rep, fn) + r_carry.check_addends(rep, fn)
                if k:
                    rep.functions.add(fn.name)
                    n += k
    rep.floor("carry stores in hash headers", n, 1)
