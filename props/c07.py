"""C07 — HMAC.

Decided completely: the pad-wiping clause (k_ipad wiped in every hmac_*_init, k_opad and inner
context wiped in every hmac_*_final, every initialised local HMAC context reaches its final).
Decided: hash-size-in-local idiom (no read of a finalised context), RFC 2104 skeleton
(strict block-size comparison, zero padding, 0x36/0x5c over the whole block, inner/outer order).
Not decided: MAC equality with RFC 2104.
"""
from rules import driver, core, r_wipe, r_mpt, ts_hash
from rules.core import walk, key, const_val
from props import common, fixtures, hashes

TRUSTED = ["clang 14 front end + CFG builder", "tool/lcbfacts.cc", "rules/core.py", "rules/r_ts.py dataflow", "python3"]
RADIUS = common.hdr_unit("radius.h", "proto/radius.h")


def pad_names(fi):
    """(inner pad local, outer pad field) found by role: the objects XORed with 0x36.. and 0x5c.. in hmac_*_init"""
    ip = op = None
    for pos, root, n, parents in fi.nodes():
        if n.get("k") == "bin" and n["op"] == "^=":
            c = const_val(n["y"])
            base = key(n["x"]).split("[")[0]
            if c is not None and (c & 0xff) == 0x36:
                ip = base
            elif c is not None and (c & 0xff) == 0x5c:
                op = base
    if ip is None or op is None:
        raise driver.AnalysisBroken("%s: inner/outer pad objects not found (no ^= 0x36.. / 0x5c..)" % fi.name)
    return ip, op.split("->")[-1].split(".")[-1]


def skeleton(rep, h, t, u):
    """RFC 2104 structure of hmac_*_init / hmac_*_final"""
    fi = u.fn(t["hmac_init"])
    ff = u.fn(t["hmac_final"])
    hidx = t["hctx_param_init"]
    IPAD, OPAD = pad_names(fi)
    # --- XOR constants over the whole block
    xors = {}
    for pos, root, n, parents in fi.nodes():
        if n.get("k") == "bin" and n["op"] == "^=":
            c = const_val(n["y"])
            tgt = key(n["x"])
            xors[tgt.split("[")[0]] = (c, n)
    want = {IPAD: ("ipad", 0x3636363636363636), OPAD: ("opad", 0x5c5c5c5c5c5c5c5c)}
    for nm, (role, val) in want.items():
        got = [(k_, v) for k_, v in xors.items() if k_.endswith(nm)]
        if got and got[0][1][0] is not None and (got[0][1][0] & 0xffffffffffffffff) == val:
            rep.proved("R-SKEL", fi, "xor-" + role, "%s (%s) is XORed with 0x%x" % (role, nm, val), "line %s" % got[0][1][1]["ln"])
        else:
            rep.violated("R-SKEL", fi, "xor-" + role, "%s (%s) is XORed with 0x%x" % (role, nm, val),
                         "found %s" % ([hex(v[0]) if v[0] is not None else None for _, v in got]))
    # loop bound * 8 == sizeof(k_ipad)
    ipad_size = None
    for bid, i, e in fi.roots():
        if e.get("k") == "decl":
            for v in e["vars"]:
                if v["n"] == IPAD:
                    ipad_size = u.type(v["t"]).get("size")
    loopok = False
    for bid in fi.reachable_blocks():
        b = fi.blocks[bid]
        if b.term and b.term["k"] == "ForStmt" and b.cond is not None:
            c = b.cond
            if c.get("k") == "bin" and c["op"] == "<":
                bound = const_val(c["y"])
                if bound is not None and ipad_size is not None and bound * 8 == ipad_size:
                    loopok = True
    if loopok:
        rep.proved("R-SKEL", fi, "xor-loop", "XOR loop covers the whole pad (count*8 == sizeof(k_ipad)=%s)" % ipad_size)
    else:
        rep.violated("R-SKEL", fi, "xor-loop", "XOR loop covers the whole pad (count*8 == sizeof(k_ipad)=%s)" % ipad_size)
    # --- key longer than block => hashed; strict comparison
    # find the branch whose true/false arm contains the *_final call
    fin_blocks = {pos[0] for pos, root, c, ps in fi.calls({t["final"]})}
    decided = False
    for bid in fi.reachable_blocks():
        b = fi.blocks[bid]
        c = b.cond
        if c is None or b.term["k"] != "IfStmt" or c.get("k") != "bin" or c["op"] not in ("<", ">", "<=", ">="):
            continue
        # which side is the block size?
        sides = [c["x"], c["y"]]
        blkside = None
        for s_i, s in enumerate(sides):
            if const_val(s) == t["blk"] or key(s).endswith("block_size"):
                blkside = s_i
        if blkside is None:
            continue
        lenside = sides[1 - blkside]
        for L, expect_hash in ((t["blk"] - 1, False), (t["blk"], False), (t["blk"] + 1, True)):
            env = {id(lenside): L, id(sides[blkside]): t["blk"]}
            try:
                v = r_mpt.eval_expr(c, env)
            except r_mpt.Unknown:
                break
            s = b.succ[0] if v else b.succ[1]
            reach_fin = s in fin_blocks or bool(_arm_blocks(fi, bid, s) & fin_blocks)
            if reach_fin != expect_hash:
                rep.violated("R-SKEL", fi, "key-longer-than-block",
                             "key is hashed iff key_len > block size (strict)",
                             "with key_len=%d (block=%d) the hashing arm is %staken" % (L, t["blk"], "" if reach_fin else "not "),
                             c.get("ln"))
                decided = True
                break
        else:
            rep.proved("R-SKEL", fi, "key-longer-than-block", "key is hashed iff key_len > block size (strict)",
                       "branch at line %s evaluated for len = blk-1, blk, blk+1" % c.get("ln"), c.get("ln"))
            decided = True
        if decided:
            break
    if not decided:
        rep.violated("R-SKEL", fi, "key-longer-than-block", "key is hashed iff key_len > block size (strict)",
                     "no comparison of key length with the block size found")
    # --- final: outer hash = H(opad || inner digest), in this order
    seq = []
    for pos, root, c, ps in ff.calls({t["final"], t["init"], t["update"]}):
        what = c["fn"]
        if what == t["update"]:
            what += ":" + ("opad" if OPAD in key(c["args"][1]) else "digest" if r_mpt.param_index(ff, c["args"][1]) == 1 else "?")
        seq.append((pos, what))
    # order by dominance (straight-line expected)
    seq.sort(key=lambda x: (-x[0][0], x[0][1]))
    names = [w for _, w in seq]
    want_seq = [t["final"], t["init"], t["update"] + ":opad", t["update"] + ":digest", t["final"]]
    linear = all(ff.pos_dominates(seq[i][0], seq[i + 1][0]) and ff.pos_postdominates(seq[i + 1][0], seq[i][0])
                 for i in range(len(seq) - 1)) if seq else False
    if names == want_seq and linear:
        rep.proved("R-SKEL", ff, "outer-sequence", "final = inner final; init; update(k_opad, block); update(inner digest); final",
                   " -> ".join(names))
    else:
        rep.violated("R-SKEL", ff, "outer-sequence", "final = inner final; init; update(k_opad, block); update(inner digest); final",
                     " -> ".join(names) + ("" if linear else " (not a single path)"))
    # opad update length == block size
    for pos, root, c, ps in ff.calls({t["update"]}):
        if OPAD in key(c["args"][1]):
            L = c["args"][2]
            if const_val(L) == t["blk"] or key(L).endswith("block_size"):
                rep.proved("R-SKEL", ff, "opad-length", "outer pad is absorbed for exactly one block", key(L))
            else:
                rep.violated("R-SKEL", ff, "opad-length", "outer pad is absorbed for exactly one block", key(L))
    # inner update with k_ipad for block size
    ok = False
    for pos, root, c, ps in fi.calls({t["update"]}):
        if IPAD in key(c["args"][1]):
            L = c["args"][2]
            if const_val(L) == t["blk"] or key(L).endswith("block_size"):
                ok = True
    (rep.proved if ok else rep.violated)("R-SKEL", fi, "ipad-length", "inner pad is absorbed for exactly one block")
    # zero padding memset(k_ipad + n, 0, BLK - n)
    ok = False
    for pos, root, c, ps in fi.calls({"memset"}):
        if IPAD in key(c["args"][0]) and const_val(c["args"][1]) == 0:
            d, L = core.strip_casts(c["args"][0]), core.strip_casts(c["args"][2])
            if d.get("k") == "bin" and d["op"] == "+" and L.get("k") == "bin" and L["op"] == "-" and \
                    key(d["y"]) == key(L["y"]) and const_val(L["x"]) == ipad_size:
                ok = True
    (rep.proved if ok else rep.violated)("R-SKEL", fi, "zero-padding", "key is zero-padded from its length up to the block size",
                                         "memset(k_ipad + n, 0, BLK - n)")


def _arm_blocks(fn, branch, succ):
    """blocks reachable from succ without passing the join (post-dominator) of branch"""
    pd = fn.pdom().get(branch, set()) - {branch}
    return fn.reach_from([succ], avoid=pd)


def selector_table(rep, u, fname="sha2_init"):
    """The SHA-2 family is selected by a number that may be the digest length in bits or in bytes; the HMAC code
    re-initialises the context between the passes with the *stored* byte size.  For every arm of the switch: the labels
    that reach it contain both the byte size the arm stores and eight times it, the block size is the variant's (64 up to
    256 bits, 128 above) and the IV copied is the table named after that bit length."""
    fn = u.fn(fname)
    if fn is None or not fn.has_cfg:
        return 0
    rep.functions.add(fname)
    sw = [bid for bid, b in fn.blocks.items() if b.term and b.term.get("k") == "SwitchStmt" and bid in fn.reachable_blocks()]
    if len(sw) != 1:
        raise driver.AnalysisBroken("%s: selector switch not found" % fname)
    labels = {}     # block -> set of case values that reach it by falling through label-only blocks
    for s_ in fn.blocks[sw[0]].rsucc():
        lab = fn.blocks[s_].label
        if not lab or "case" not in lab:
            continue
        b = s_
        while not fn.blocks[b].elems and len(fn.blocks[b].rsucc()) == 1:
            b = fn.blocks[b].rsucc()[0]
        labels.setdefault(b, set()).add(int(lab["case"]))
    n = 0
    for b, ls in sorted(labels.items(), reverse=True):
        hs = bs = iv = None
        for e in fn.blocks[b].elems:
            for x, ps in walk(e):
                if x.get("k") == "bin" and x["op"] == "=" and key(x["x"]).endswith("->hash_size"):
                    hs = const_val(x["y"])
                if x.get("k") == "bin" and x["op"] == "=" and key(x["x"]).endswith("->block_size"):
                    bs = const_val(x["y"])
                if x.get("k") == "call" and x.get("fn") == "memcpy":
                    iv = (key(core.strip_casts(x["args"][1])), const_val(x["args"][2]))
        n += 1
        inst = "selector:%s" % (hs if hs is not None else sorted(ls))
        desc = "%s: the arm that stores digest size %s is selected by %s and by %s, with the variant's block size and IV" % (
            fname, hs, hs, None if hs is None else hs * 8)
        bad = []
        if hs is None or bs is None or iv is None:
            bad.append("arm with labels %s does not store hash_size/block_size/IV" % sorted(ls))
        else:
            if hs not in ls:
                bad.append("the stored byte size %d is not a label of its own arm (labels %s): re-initialising a context with its "
                           "stored size - as the second HMAC pass does - selects nothing" % (hs, sorted(ls)))
            if hs * 8 not in ls:
                bad.append("the bit length %d is not a label of the arm (labels %s)" % (hs * 8, sorted(ls)))
            if bs != (64 if hs * 8 <= 256 else 128):
                bad.append("block size %s for a %d-bit digest" % (bs, hs * 8))
            if str(hs * 8) not in iv[0]:
                bad.append("IV table %s for a %d-bit digest" % (iv[0], hs * 8))
            if ls - {hs, hs * 8}:
                bad.append("extra labels %s" % sorted(ls - {hs, hs * 8}))
        (rep.violated if bad else rep.proved)("R-TBL", fn, inst, desc, "; ".join(bad) if bad else "labels %s, block %s, IV %s" % (sorted(ls), bs, iv[0]))
    return n


def empty_key_rule(rep, fi):
    """The empty key is a legal HMAC key and callers hand it over as (NULL, 0) (radius.h refuses only NULL with a non-zero
    length).  memcpy(dst, NULL, 0) is undefined behaviour (the arguments are declared nonnull: the compiler may assume
    key != NULL afterwards), so the copy of the caller's key is excluded for length 0 by a dominating test."""
    from rules import r_range
    n = 0
    pn = {p["n"] for p in fi.params}
    for pos, root, c, ps in fi.calls({"memcpy", "memmove"}):
        src = core.base_ref(c["args"][1])
        if src is None or src["n"] not in pn or src.get("dk") != "parm":
            continue
        n += 1
        ln_ = core.strip_casts(c["args"][2])
        ok, why = r_range.excludes_zero(fi, pos, ln_) if ln_.get("k") in ("ref", "mem") else (const_val(ln_) not in (None, 0), "constant")
        desc = "%s: the copy of the caller's key (%s, %s) is not executed for the empty key" % (fi.name, src["n"], key(ln_))
        (rep.proved if ok else rep.violated)("R-NULLARG", fi, "empty-key-copy", desc, why if ok else
                                             "memcpy(%s, %s, %s) is reached with length 0: for the legal empty key (NULL, 0) that is undefined behaviour "
                                             "(UBSan: null pointer passed as argument 2, declared to never be null)" % (key(c["args"][0])[:20], src["n"], key(ln_)), c.get("ln"))
    return n


def run(rep, tier):
    nk = 0
    specs = hashes.units(tier, extra_gost=False)
    us = driver.load_units([s for (_, _, s) in specs] + [RADIUS])
    rep.use_units(us)
    n = 0
    for (h, lab, s) in specs:
        u = us[s.label]
        t = hashes.HASHES[h]
        for nm in (t["hmac_init"], t["hmac_final"], t["hmac"]):
            if u.fn(nm) is None:
                raise driver.AnalysisBroken("anchor %s vanished in %s" % (nm, u.label))
        fi, ff = u.fn(t["hmac_init"]), u.fn(t["hmac_final"])
        rep.functions.update([fi.name, ff.name, t["hmac"]])
        IPAD, OPAD = pad_names(fi)
        obj, mention = r_wipe.local_obj(fi, IPAD)
        r_wipe.check_wipe(rep, fi, u, "ipad", obj, mention)
        obj, mention = r_wipe.field_obj(ff, 0, OPAD)
        r_wipe.check_wipe(rep, ff, u, "hctx->opad", obj, mention)
        r_wipe.check_call_on_all_paths(rep, ff, "inner context wiped by " + t["final"], {t["final"]})
        n += 2
        skeleton(rep, h, t, u)
        nk += empty_key_rule(rep, fi)
        # typestate in every function of the header that touches contexts
        for fn in u.function_list:
            if fn.relfile().startswith("include/crypto/hash/") and not fn.name.endswith("self_test"):
                if ts_hash.check_hash_typestate(rep, fn):
                    rep.functions.add(fn.name)
                if ts_hash.check_hmac_must_final(rep, fn):
                    rep.functions.add(fn.name)
    rep.floor("HMAC pad wipe obligations", n, 16)
    rep.floor("key copies in the HMAC key set-up", nk, 8)
    nsel = 0
    for (h, lab, s_) in specs:
        if h == "sha2":
            nsel = max(nsel, selector_table(rep, us[s_.label]))
    rep.floor("SHA-2 selector arms", nsel, 4)
    # the compression loops HMAC relies on, in every build variant analysed here (rules shared with C04)
    from props import c04
    nls = 0
    for (h, lab, s_) in specs:
        own = "include/" + hashes.HASHES[h]["hdr"]
        nls += c04.loop_save_rule(rep, us[s_.label], own)
        c04.block_step_rule(rep, us[s_.label], own)
        c04.bulk_advance_rule(rep, us[s_.label], own)
        c04.update_coverage(rep, us[s_.label], h, hashes.HASHES[h])
        c04.dispatch_rule(rep, us[s_.label], own)
    rep.floor("per-block state copies", nls, 2)
    # the carry chains of the multi-word adders (Streebog's checksum and counter, the SHA length counters): C04's rule
    from props import c04_more
    c04_more.run(rep, specs, us, tier)
    u = us["radius.h"]
    nr = 0
    for fn in u.function_list:
        if fn.relfile() == "include/proto/radius.h":
            a = ts_hash.check_hash_typestate(rep, fn)
            b = ts_hash.check_hmac_must_final(rep, fn)
            if a or b:
                rep.functions.add(fn.name)
                nr += 1
    rep.floor("radius.h functions using hash/HMAC contexts", nr, 4)
    return driver.finish(
        rep, "other",
        "Static analysis of the four HMAC implementations in %d build variants and of their users in proto/radius.h. "
        "Decided completely: pad wiping (k_ipad in init, k_opad + inner context in final, through the volatile memset "
        "pointer, full size, every path, last access; every locally initialised HMAC context reaches hmac_*_final on "
        "every path). Decided: no context is read after *_final wiped it; RFC 2104 skeleton (strict >block comparison, "
        "zero padding, 0x36/0x5c over the whole block, inner/outer order and lengths). NOT decided: MAC values." % len(us),
        ["*_final wipes the context it is given (that is C04's obligation, checked there)"], TRUSTED)


def selftest():
    u = fixtures.load("ts_hash.c")
    rep = driver.Report("fixture", "quick")
    for fn in u.function_list:
        if fn.name.startswith("fx_"):
            ts_hash.check_hash_typestate(rep, fn)
            ts_hash.check_hmac_must_final(rep, fn)
    fixtures.expect(rep, ["fx_bad_read_after_final", "fx_bad_update_after_final", "fx_bad_noinit", "fx_hmac_bad_exit"],
                    ["fx_ok", "fx_ok_reinit", "fx_hmac_ok"], "R-TS hash")
