"""C15 rules from the second audit pass (replays/C15-hunt2).

  R-NULLCPY  a function that admits (NULL, 0) for a (pointer, length) parameter pair - it tests `NULL == p` and lets the
             call through when the length is 0 - does not hand p to memcpy/memmove/memcmp unless length 0 is excluded
             (the library declares those arguments nonnull: undefined behaviour, and the optimiser deletes later NULL tests)
  R-NAMEFIT  dns_msg_sequence_of_labels2name accepts a buffer of name length + 1 and, when it refuses one, reports a size
             with which the retry succeeds (evaluated on a concrete message by the partial evaluator)
  R-GATHER   radius_pkt_attr_get_data_to_buf does not report success when an attribute did not fit, and steps to the next
             attribute by the attribute's length (the returned data length of a User-Password is shortened by strnlen)
  R-INPLACE  the label encoder moves the name inside the caller's buffer with memmove (name == buf is the documented
             in-place use; memcpy on overlapping ranges is undefined)
"""
from rules import driver, core, r_range, r_stride
from rules.core import key, const_val, walk

COPIES = {"memcpy": (0, 1, 2), "memmove": (0, 1, 2), "memcmp": (0, 1, 2), "__builtin_memcpy": (0, 1, 2), "__builtin_memmove": (0, 1, 2),
          "__builtin___memcpy_chk": (0, 1, 2), "__builtin___memmove_chk": (0, 1, 2)}


def _need(u, n):
    fn = u.fn(n)
    if fn is None or not fn.has_cfg:
        raise driver.AnalysisBroken("anchor %s vanished" % n)
    return fn


def value_reaches(fn, site, vnode, value=0):
    """can control reach `site` with vnode == value?  Forward search from the entry that follows, at every branch whose
    condition is decided by vnode == value, only the edge taken; a write to the variable ends the tracking (then: yes)"""
    from rules import r_mpt
    vkey = key(vnode)
    vids = core.ref_ids(vnode)
    entry = fn.entry if hasattr(fn, "entry") else max(fn.blocks)
    seen = set()
    work = [entry]
    while work:
        b = work.pop()
        if b in seen:
            continue
        seen.add(b)
        blk = fn.blocks[b]
        if b == site[0]:
            return True
        if any(r_range.writes_of(e) & vids for e in blk.elems):
            return True                                    # rewritten: no longer the caller's value
        succ = list(blk.rsucc())
        c = blk.cond
        if c is not None and len(blk.succ) == 2:
            atom = None
            for y, _ in walk(c):
                if y.get("k") in ("ref", "mem") and key(y) == vkey:
                    atom = y
                    break
            if atom is not None:
                s_, known = r_mpt.edge_for_value(fn, b, c, atom, value)
                if known and s_ is not None:
                    succ = [s_]
        work.extend(x for x in succ if x is not None)
    return False


def _null_tested(u, fn):
    """ids of the pointer parameters the function itself compares with NULL"""
    ptr_params = {p["id"]: p for p in fn.params if (u.type(p["t"]) or {}).get("k") == "ptr"}
    tested = set()
    for bid in fn.reachable_blocks():
        c = fn.blocks[bid].cond
        if c is None:
            continue
        for y, _ in walk(c):
            if y.get("k") == "bin" and y["op"] in ("==", "!="):
                for a, b in ((y["x"], y["y"]), (y["y"], y["x"])):
                    if (const_val(a) == 0 or const_val(core.strip_casts(a)) == 0 or "NULL" in core.macros(a)) and core.is_ref(core.strip_casts(b)) and core.strip_casts(b).get("id") in ptr_params:
                        tested.add(core.strip_casts(b)["id"])
    return tested


def null_copy_rule(rep, u, hdr):
    n = 0
    # which (function, parameter index) admit NULL by their own test and still run (value_reaches some later block)
    admit = {}
    for fn in u.function_list:
        if fn.relfile() != hdr or not fn.has_cfg:
            continue
        t_ = _null_tested(u, fn)
        for i, p in enumerate(fn.params):
            if p["id"] in t_:
                admit[(fn.name, i)] = True
    for fn in u.function_list:
        if fn.relfile() != hdr or not fn.has_cfg:
            continue
        ptr_params = {p["id"]: p for p in fn.params if (u.type(p["t"]) or {}).get("k") == "ptr"}
        if not ptr_params:
            continue
        # parameters the function itself compares with NULL
        tested = set()
        # ... and parameters it hands unchanged to a sibling that does (one arm delegates, another copies itself)
        for pos_, root_, call_, ps_ in fn.calls():
            for i_, a_ in enumerate(call_.get("args", [])):
                a0 = core.strip_casts(a_)
                if core.is_ref(a0) and a0.get("id") in ptr_params and admit.get((call_.get("fn"), i_)) and call_.get("fn") != fn.name:
                    tested.add(a0["id"])
        for bid in fn.reachable_blocks():
            c = fn.blocks[bid].cond
            if c is None:
                continue
            for y, _ in walk(c):
                if y.get("k") == "bin" and y["op"] in ("==", "!="):
                    for a, b in ((y["x"], y["y"]), (y["y"], y["x"])):
                        if (const_val(a) == 0 or const_val(core.strip_casts(a)) == 0 or "NULL" in core.macros(a)) and core.is_ref(core.strip_casts(b)) and core.strip_casts(b).get("id") in ptr_params:
                            tested.add(core.strip_casts(b)["id"])
        for pos, root, call, ps in fn.calls(set(COPIES)):
            d_, s_, l_ = COPIES[call["fn"]]
            for ai in (d_, s_):
                a = core.strip_casts(call["args"][ai])
                if not (core.is_ref(a) and a.get("id") in tested):
                    continue
                # can NULL reach the call?
                if not value_reaches(fn, pos, a, 0):
                    continue
                ln = core.strip_casts(call["args"][l_])
                n += 1
                rep.functions.add(fn.name)
                inst = "null-with-zero-length:%s(%s)" % (call["fn"].replace("__builtin_", "").replace("___", "").replace("_chk", ""), a["n"])
                desc = "%s: %s is tested against NULL and NULL can reach %s(); length 0 is excluded there" % (fn.name, a["n"], call["fn"])
                if const_val(ln) not in (None, 0):
                    rep.violated("R-NULLCPY", fn, inst, desc, "constant length %s with a pointer that may be NULL" % const_val(ln), call.get("ln"))
                    continue
                if not (core.is_ref(ln) or ln.get("k") in ("mem",)):
                    rep.undecided("R-NULLCPY", fn, inst, desc, "length %s is not a plain variable" % key(ln)[:40])
                    continue
                ok = not value_reaches(fn, pos, ln, 0)
                (rep.proved if ok else rep.violated)("R-NULLCPY", fn, inst, desc, "no path with %s == 0 reaches the call" % key(ln) if ok else
                                                     "%s(.., %s = NULL, %s = 0): the function lets (NULL, 0) through its argument check and then passes NULL to a "
                                                     "library routine whose arguments are declared nonnull (UBSan: null pointer passed as argument)" % (call["fn"], a["n"], key(ln)), call.get("ln"))
    return n


def name_fit_rule(rep, u, fname="dns_msg_sequence_of_labels2name", lenfn="dns_msg_sequence_of_labels_get_name_len"):
    fn = _need(u, fname)
    rep.functions.add(fname)
    n = 0
    for labels in ((b"abc", b"de"), (b"a" * 63, b"b" * 63, b"c" * 63, b"d" * 61), ()):
        msg = bytes(12) + b"".join(bytes([len(l)]) + l for l in labels) + b"\x00"
        nlen = max(0, sum(len(l) + 1 for l in labels) - 1)
        caps = sorted({1, 2, max(1, nlen - 1), max(1, nlen), nlen + 1, nlen + 2})
        for cap in caps:
            pe = r_stride.PE(u, call_default={lenfn: 0})
            pe.out_default = {lenfn: {3: nlen}}
            for i, b in enumerate(msg):
                pe.memory[0x40000 + i] = b
            bind = {"hdr": 0x40000, "msg_size": len(msg), "offset": 12, "name": 0x60000, "name_buf_size": cap, "name_len_ret": 0x7000}
            ev, ret = pe.trace(fn, bind, max_steps=40000)
            n += 1
            inst = "name-buffer[name %d, buffer %d]" % (nlen, cap)
            desc = "%s: a %d byte name into a buffer of %d" % (fname, nlen, cap)
            got = ev[-1][1].get("*(name_len_ret)") if ev else None
            if isinstance(ret, str):
                rep.undecided("R-NAMEFIT", fn, inst, desc, ret)
            elif cap >= nlen + 1:
                (rep.proved if ret == 0 and got == nlen else rep.violated)("R-NAMEFIT", fn, inst, desc, "accepted, length %s" % got if ret == 0 and got == nlen else
                                                                           "returns %s (length %s): name length + 1 bytes are written (the last dot becomes the NUL), %d are demanded" % (ret, got, nlen + 2))
            elif ret == 0:
                rep.violated("R-NAMEFIT", fn, inst, desc, "accepted: %d bytes are written into %d" % (nlen + 1, cap))
            elif not isinstance(got, int):
                rep.undecided("R-NAMEFIT", fn, inst, desc, "refused (%s); reported size not evaluated" % ret)
            else:
                (rep.proved if got >= nlen + 1 else rep.violated)("R-NAMEFIT", fn, inst, desc, "refused, reports %s" % got if got >= nlen + 1 else
                                                                  "refused with reported size %s: a retry with that size fails again (%d needed) - the running length up to the "
                                                                  "label that did not fit is reported, not the size of the name" % (got, nlen + 1))
    return n


def gather_rule(rep, u, fname="radius_pkt_attr_get_data_to_buf"):
    fn = _need(u, fname)
    rep.functions.add(fname)
    pn = [p["n"] for p in fn.params]
    n = 0
    models = {"radius_pkt_attr_find": {3: 100}, "radius_pkt_attr_get_data_ptr": {3: 0x70000, 4: 253}, "radius_pkt_attr_get_data_ptr_raw": {3: 0x70000, 4: 253}}
    # (a) three 253 byte attributes into 600 bytes
    pe = r_stride.PE(u, call_default={k_: 0 for k_ in models})
    pe.out_default = models
    bind = {p_: 0 for p_ in pn}
    bind.update({"pkt": 0x40000, "type": 79, "buf": 0x60000, "buf_size": 600, "buf_size_ret": 0x7000})
    ev, ret = pe.trace(fn, bind)
    n += 1
    desc = "%s: attributes of 253 bytes each into 600 bytes: the one that does not fit is reported" % fname
    if isinstance(ret, str):
        rep.undecided("R-GATHER", fn, "no-silent-truncation", desc, ret)
    else:
        (rep.proved if ret != 0 else rep.violated)("R-GATHER", fn, "no-silent-truncation", desc, "returns %s" % ret if ret != 0 else
                                                   "returns 0 with %s bytes: the third EAP-Message fragment is dropped and the truncated EAP packet handed on as complete" % (ev[-1][1].get("*(buf_size_ret)") if ev else "?"))
    # (b) the step to the next attribute: data length 5 (a password shortened by strnlen), attribute data 16
    m2 = {"radius_pkt_attr_find": {3: 100}, "radius_pkt_attr_get_data_ptr": {3: 0x70000, 4: 5}, "radius_pkt_attr_get_data_ptr_raw": {3: 0x70000, 4: 16}}
    pe = r_stride.PE(u, call_default={k_: 0 for k_ in m2})
    pe.out_default = m2
    bind.update({"buf_size": 600, "count": 1, "type": 2})
    ev, ret = pe.trace(fn, bind)
    n += 1
    desc = "%s: the search continues behind the attribute (offset + 2 + its data length), not behind the shortened data" % fname
    off = ev[-1][1].get("offset") if ev else None         # the state at the return: one attribute taken (count = 1)
    if not isinstance(off, int):
        rep.undecided("R-GATHER", fn, "step-by-attribute-length", desc, "offset after the first attribute not evaluated (%s)" % off)
    else:
        (rep.proved if off == 118 else rep.violated)("R-GATHER", fn, "step-by-attribute-length", desc, "offset 100 -> %d" % off if off == 118 else
                                                     "offset 100 -> %d: a User-Password of 5 characters occupies 18 bytes; the next search starts inside it and parses password bytes as an attribute header" % off)
    return n


INPLACE = {"DomainNameToSequenceOfLabels": ("name", "buf")}    # (input, output) of the routines documented to work in place


def inplace_rule(rep, u):
    n = 0
    for fname, (src, dst) in sorted(INPLACE.items()):
        fn = _need(u, fname)
        ids = {p["n"]: p["id"] for p in fn.params}
        if src not in ids or dst not in ids:
            raise driver.AnalysisBroken("%s: parameters %s/%s not found" % (fname, src, dst))
        derived = {ids[dst]}
        changed = True
        while changed:
            changed = False
            for pos, root, x, ps in fn.nodes():
                if x.get("k") == "bin" and x["op"] == "=" and core.is_ref(core.strip_casts(x["x"])):
                    b = core.base_ref(x["y"])
                    l = core.strip_casts(x["x"])
                    if b is not None and b.get("id") in derived and l["id"] not in derived:
                        derived.add(l["id"])
                        changed = True
        for pos, root, call, ps in fn.calls({"memcpy", "memmove", "__builtin_memcpy", "__builtin___memcpy_chk", "__builtin_memmove", "__builtin___memmove_chk"}):
            d_ = core.base_ref(call["args"][0])
            s_ = core.base_ref(call["args"][1])
            if d_ is None or s_ is None or d_.get("id") not in derived or s_.get("id") != ids[src]:
                continue
            n += 1
            rep.functions.add(fname)
            mv = "memmove" in call["fn"]
            desc = "%s: the name is moved into the output buffer with memmove (%s == %s is the in-place use)" % (fname, src, dst)
            (rep.proved if mv else rep.violated)("R-INPLACE", fn, "shifted-copy-may-overlap", desc, "" if mv else
                                                 "memcpy(%s, %s, ..): with %s == %s (the in-place conversion the source describes) the ranges overlap by all but one byte" % (
                                                     key(call["args"][0])[:30], key(call["args"][1])[:30], src, dst), call.get("ln"))
    return n


# ------------------------------------------------------------------ third pass (replays/C15-hunt3)

REPLY_CODES = ("ACCESS_ACCEPT", "ACCESS_REJECT", "ACCOUNTING_RESPONSE", "ACCESS_CHALLENGE", "DISCONNECT_ACK", "DISCONNECT_NAK", "COA_ACK", "COA_NAK")
RANDOM_AUTH_CODES = ("ACCESS_REQUEST", "STATUS_SERVER", "STATUS_CLIENT")        # the caller supplies the random authenticator: NULL refused too
REQUEST_CODES = ("ACCOUNTING_REQUEST", "DISCONNECT_REQUEST", "COA_REQUEST")     # authenticator starts as zeros: NULL is the normal call


def reply_authenticated_rule(rep, u, fname="radius_pkt_authenticator_chk"):
    """a packet checked as the reply to a request (pkt_req given) is accepted only after its authenticator was compared: no
    success return is reachable with pkt_req != NULL that does not pass the comparison (a reply whose code byte says
    Access-Request / Status-Server / Status-Client was waved through, forged or not)"""
    from props.c16_audit import _follow
    fn = _need(u, fname)
    rep.functions.add(fname)
    preq = [p for p in fn.params if p["n"] == "pkt_req"]
    cmps = {pos[0] for pos, root, c, ps in fn.calls({"timingsafe_bcmp", "timingsafe_memcmp", "memcmp", "mem_cmp"})}
    if not preq or not cmps:
        raise driver.AnalysisBroken("%s: pkt_req parameter or the comparison not found" % fname)
    reach = _follow(fn, fn.entry, preq[0]["id"], 0x5000, stop=cmps)
    bad = [(pos, e) for pos, e in fn.returns() if pos[0] in reach and pos[0] not in cmps and const_val(e.get("e") or {}) == 0]
    desc = "%s: with a request given, success is returned only behind the authenticator comparison" % fname
    (rep.violated if bad else rep.proved)("R-VERIFY", fn, "reply-success-behind-compare", desc,
                                          "return 0 at line %s is reached with pkt_req != NULL without a comparison: a reply with code 1 / 12 / 13 verifies with any secret, the "
                                          "client completes its pending query on a forged datagram" % bad[0][1].get("ln") if bad else "")
    return 1


def reply_needs_request_authenticator_rule(rep, u, consts, fname="radius_pkt_init"):
    """every reply code needs the request's authenticator (its own is computed over it): NULL is refused for all of them, and
    accepted for the request codes"""
    from rules import r_stride
    fn = _need(u, fname)
    rep.functions.add(fname)
    pn = [p["n"] for p in fn.params]
    n = 0
    for names, want_ok in ((REPLY_CODES, False), (RANDOM_AUTH_CODES, False), (REQUEST_CODES, True)):
        for nm in names:
            code = consts.get("RADIUS_PKT_TYPE_" + nm)
            if code is None:
                raise driver.AnalysisBroken("RADIUS_PKT_TYPE_%s not evaluated" % nm)
            pe = r_stride.PE(u)
            ev, ret = pe.trace(fn, {pn[0]: 0x40000, pn[1]: 4096, pn[2]: 0x7000, pn[3]: code, pn[4]: 7, pn[5]: 0})
            n += 1
            inst = "null-authenticator[%s]" % nm
            desc = "%s(%s, authenticator NULL) is %s" % (fname, nm, "accepted" if want_ok else "refused")
            if isinstance(ret, str):
                rep.undecided("R-VERIFY", fn, inst, desc, ret)
            elif (ret == 0) == want_ok:
                rep.proved("R-VERIFY", fn, inst, desc, "status %s" % ret)
            elif want_ok:
                rep.violated("R-VERIFY", fn, inst, desc, "status %s" % ret)
            else:
                rep.violated("R-VERIFY", fn, inst, desc, "status 0 with a zero authenticator: the Response Authenticator is then MD5 over 16 zero bytes instead of the Request "
                             "Authenticator and no verifier accepts the reply")
    return n



def reply_code_rule(rep, u, consts, fname="radius_pkt_authenticator_chk"):
    """verified against a request (pkt_req given) a packet is accepted only with a reply code: all six request codes are
    refused even when their authenticator compares equal (Accounting/Disconnect/CoA requests are signed without the request
    authenticator, so the client's own request echoed back would verify), all eight reply codes pass to the comparison"""
    from rules import r_stride
    fn = _need(u, fname)
    rep.functions.add(fname)
    pn = [p["n"] for p in fn.params]
    n = 0
    for names, want_ok in ((REPLY_CODES, True), (RANDOM_AUTH_CODES + REQUEST_CODES, False)):
        for nm in names:
            code = consts.get("RADIUS_PKT_TYPE_" + nm)
            if code is None:
                raise driver.AnalysisBroken("RADIUS_PKT_TYPE_%s not evaluated" % nm)
            pe = r_stride.PE(u, call_default={"radius_pkt_authenticator_calc": 0, "timingsafe_bcmp": 0, "timingsafe_memcmp": 0, "memcmp": 0})
            bind = {pn[0]: 0x40000, "%s->code" % pn[0]: code, pn[1]: 0x3000, pn[2]: 8, pn[3]: 0, pn[4]: 0x50000}
            ev, ret = pe.trace(fn, bind)
            n += 1
            inst = "as-reply[%s]" % nm
            desc = "%s(code %s, pkt_req given, authenticator equal) is %s" % (fname, nm, "accepted" if want_ok else "refused")
            if isinstance(ret, str):
                rep.undecided("R-VERIFY", fn, inst, desc, ret)
            elif (ret == 0) == want_ok:
                rep.proved("R-VERIFY", fn, inst, desc, "status %s" % ret)
            else:
                rep.violated("R-VERIFY", fn, inst, desc, "status %s: %s" % (ret, "the client's own request, echoed from a spoofed server address, completes the query without the secret" if not want_ok else "a genuine reply is refused"))
    return n
