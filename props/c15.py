"""C15 — DNS and RADIUS builders: structural clauses.

Decided (structure, not values):
  * R-PLEN    every call that passes `&object` (or an array) together with a constant length reads/writes no more than
              sizeof(object) bytes (pointer/length agreement).
  * R-LIVE    every builder arm can succeed: with valid arguments of each attribute class some path reaches the success
              return (partial evaluation through the size-query and validation helpers the arm calls).
  * R-STREAM  the byte stream fed to MD5 / HMAC-MD5 by radius_pkt_authenticator_calc and
              radius_pkt_attr_msg_authenticator_calc for every packet code x authenticator mode x request presence is the
              RFC 2865 / 2866 / 3579 / 5176 stream (symbolic byte ranges, adjacent ranges merged, zeroed buffers recognised),
              unknown codes fail, and the digest lands in the output argument.
  * R-HIDE    RFC 2865 5.2 User-Password hiding equations c(1)=p(1)^MD5(S|RA), c(i)=p(i)^MD5(S|c(i-1)) hold symbolically for
              1..3 blocks in encode and decode, with separate and with aliased (in-place) buffers, the way radius_pkt_sign /
              radius_pkt_verify call them.
  * R-LAYOUT  DNS writer/reader agreement: the fields dns_msg_question_add / dns_msg_rr_add / dns_msg_optrr_add store are
              at the addresses, widths and byte orders dns_msg_question_get_data / dns_msg_rr_get_data load them from; the size the
              writer reports equals the size the reader computes; RADIUS attribute append advances the header length by the
              attribute's own length field.
  * R-PATH    dns_msg_question_add bumps the question counter exactly once on success and never on failure.
  * R-SIB     the 16 dns_hdr_{qd,an,ns,ar}_{get,set,inc,dec} accessors are one program up to the counter field.
  * R-BAN     digests are compared with timingsafe_bcmp, never memcmp/bcmp, in the *_chk functions.
Not decided: byte-identity with an independent RFC encoder for whole messages, MD5/HMAC values, rejection of every
corrupted byte (follows from the stream clause only under MD5's properties).
"""
import itertools
from rules import driver, core, absint, r_mpt, r_stride, r_path, r_endian, r_bitlayout
from rules.core import key, walk, strip_casts, const_val
from props import common, fixtures

RADIUS_H = "include/proto/radius.h"
DNS_H = "include/proto/dns.h"
TRUSTED = ["clang 14 front end + CFG builder", "tool/lcbfacts.cc", "rules/r_stride.py partial evaluator", "python3",
           "RFC 2865 5.2/3, RFC 2866 3, RFC 3579 3.2, RFC 5176 2.3 as transcribed in props/c15.py"]

# RFC 1035 4.1 / RFC 6891 6.1.2 / RFC 2865 3: the multi-byte integer fields of the wire formats the library declares
WIRE_REQUIRED = {"proto/dns.h": ["qd_count", "an_count", "ns_count", "ar_count", "type", "class", "ttl", "rdlength", "udp_payload_size"],
                 "proto/radius.h": ["len"]}


def specs():
    return [common.hdr_unit("proto/radius.h", "proto/radius.h"), common.hdr_unit("proto/dns.h", "proto/dns.h"),
            common.src_unit("src/proto/radius_client.c"), common.src_unit("src/proto/dns_resolv.c")] + r_bitlayout.units_for("proto/dns.h")[1:]


# ------------------------------------------------------------------ R-PLEN

EXTRA_PL = {"radius_pkt_attr_add": [(5, 4)], "radius_pkt_attr_add_raw": [(5, 4)], "md5_update": [(1, 2)],
            "hmac_md5_update": [(1, 2)], "hmac_md5_init": [(0, 1)], "timingsafe_bcmp": [(0, 2), (1, 2)],
            "sha1_update": [(1, 2)], "sha2_update": [(1, 2)]}


def _callee_pairs(u, name):
    ps = []
    for (pi, li, rw) in absint.COPY_CALLS.get(name, []):
        ps.append((pi, li))
    ps += EXTRA_PL.get(name, [])
    f = u.functions.get(name)
    if f is not None:
        idx = {p["n"]: i for i, p in enumerate(f.params)}
        for (pn, sn, es) in absint.guess_pairs(f):
            if es == 1 and (idx[pn], idx[sn]) not in ps:
                ps.append((idx[pn], idx[sn]))
    return ps


def _object_size(u, arg):
    """size in bytes of the object a pointer argument designates when that is visible at the call: &lvalue or an array"""
    a = strip_casts(arg)
    if a.get("k") == "un" and a.get("op") == "&":
        lv = strip_casts(a["e"])
        if "t" not in lv:
            return None, None, False
        t = u.type(lv["t"])
        last = False
        if lv.get("k") == "mem":
            rc = u.records.get(lv.get("rec")) or {}
            fs = rc.get("fields", [])
            last = bool(fs) and fs[-1]["n"] == lv["f"]
        return t.get("size"), key(lv), last
    if a.get("k") in ("ref", "mem") and "t" in a and u.type(a["t"])["k"] == "arr":
        return u.type(a["t"]).get("size"), key(a), False
    return None, None, False


def plen_rule(rep, u, fns, rule="R-PLEN"):
    n = 0
    for fn in fns:
        per = {}
        for pos, root, call, ps in fn.calls():
            name = call.get("fn")
            if not name:
                continue
            for (pi, li) in _callee_pairs(u, name):
                if pi >= len(call["args"]) or li >= len(call["args"]):
                    continue
                L = const_val(call["args"][li])
                if L is None:
                    continue
                size, what, last = _object_size(u, call["args"][pi])
                if size is None:
                    continue
                n += 1
                rep.functions.add(fn.name)
                per[(name, what)] = per.get((name, what), 0) + 1
                inst = "%s(%s)" % (name, what) + ("" if per[(name, what)] == 1 else "#%d" % per[(name, what)])
                desc = "%s is given %s with a constant length that fits the object" % (name, what)
                if int(L) <= size:
                    rep.proved(rule, fn, inst, desc, "length %d <= sizeof = %d" % (int(L), size), call.get("ln"))
                elif last:
                    rep.undecided(rule, fn, inst, desc, "length %d exceeds the %d-byte trailing member (flexible tail idiom)" % (int(L), size), call.get("ln"))
                else:
                    rep.violated(rule, fn, inst, desc, "length %d is passed with a pointer to a %d-byte object: %d bytes beyond it are "
                                 "%s" % (int(L), size, int(L) - size, "accessed"), call.get("ln"))
    return n


# ------------------------------------------------------------------ shared PE set-up for radius.h

ENOATTR = None


def _enum(u, name):
    for g in (u.enum_consts or {}), :
        if name in g:
            return int(g[name])
    return None


def macro_consts(names):
    """values of object-like macros / enumerators of radius.h, folded by the compiler in a probe unit"""
    txt = driver.PRELUDE + '#include "proto/radius.h"\n'
    for nm in names:
        txt += "static const long long lcb_probe_%s = (long long)(%s);\n" % (nm, nm)
    u = driver.load_units([driver.UnitSpec("probe:radius-consts", "text", txt)], no_bodies=True)["probe:radius-consts"]
    res = {}
    for nm in names:
        g = u.globals.get("lcb_probe_" + nm)
        v = core.global_value(u, g) if g else None
        res[nm] = int(v) if v is not None and str(v).lstrip("-").isdigit() else None
    return res


CODES = ["RADIUS_PKT_TYPE_ACCESS_REQUEST", "RADIUS_PKT_TYPE_ACCESS_ACCEPT", "RADIUS_PKT_TYPE_ACCESS_REJECT",
         "RADIUS_PKT_TYPE_ACCOUNTING_REQUEST", "RADIUS_PKT_TYPE_ACCOUNTING_RESPONSE", "RADIUS_PKT_TYPE_ACCESS_CHALLENGE",
         "RADIUS_PKT_TYPE_STATUS_SERVER", "RADIUS_PKT_TYPE_STATUS_CLIENT", "RADIUS_PKT_TYPE_DISCONNECT_REQUEST",
         "RADIUS_PKT_TYPE_DISCONNECT_ACK", "RADIUS_PKT_TYPE_DISCONNECT_NAK", "RADIUS_PKT_TYPE_COA_REQUEST",
         "RADIUS_PKT_TYPE_COA_ACK", "RADIUS_PKT_TYPE_COA_NAK"]
RANDOM_AUTH = {"RADIUS_PKT_TYPE_ACCESS_REQUEST", "RADIUS_PKT_TYPE_STATUS_SERVER", "RADIUS_PKT_TYPE_STATUS_CLIENT"}
ZERO_AUTH = {"RADIUS_PKT_TYPE_ACCOUNTING_REQUEST", "RADIUS_PKT_TYPE_DISCONNECT_REQUEST", "RADIUS_PKT_TYPE_COA_REQUEST"}
REPLIES = {"RADIUS_PKT_TYPE_ACCESS_ACCEPT", "RADIUS_PKT_TYPE_ACCESS_REJECT", "RADIUS_PKT_TYPE_ACCESS_CHALLENGE",
           "RADIUS_PKT_TYPE_ACCOUNTING_RESPONSE", "RADIUS_PKT_TYPE_DISCONNECT_ACK", "RADIUS_PKT_TYPE_DISCONNECT_NAK",
           "RADIUS_PKT_TYPE_COA_ACK", "RADIUS_PKT_TYPE_COA_NAK"}

PKT, REQ, OUT, KEY = 0x10000, 0x20000, 0x30000, 0x40000
PKT_LEN, MA_OFF, KEY_LEN = 70, 30, 7           # packet length, offset of the Message-Authenticator attribute, secret length
REGIONS = (("PKT", PKT), ("REQ", REQ), ("OUT", OUT), ("KEY", KEY))


def _region(addr):
    for nm, b in REGIONS:
        if b <= addr < b + 0x1000:
            return nm, addr - b
    return "?", addr


class Mem:
    """byte-content model over a trace: what each byte holds symbolically"""

    def __init__(self):
        self.m = {}

    def get(self, a):
        return self.m.get(a, ("in",) + _region(a))

    def copy(self, dst, src, n):
        vals = [self.get(src + i) for i in range(n)]
        for i, v in enumerate(vals):
            self.m[dst + i] = v

    def fill(self, dst, c, n):
        for i in range(n):
            self.m[dst + i] = ("const", c)


def _ranges(toks):
    """merge a byte-token list into ranges: ('PKT',0,4) / ('ZERO',16) / ('other', token)"""
    out = []
    for t in toks:
        if t[0] == "in":
            if out and out[-1][0] == t[1] and out[-1][1] + out[-1][2] == t[2]:
                out[-1] = (t[1], out[-1][1], out[-1][2] + 1)
            else:
                out.append((t[1], t[2], 1))
        elif t == ("const", 0):
            if out and out[-1][0] == "ZERO":
                out[-1] = ("ZERO", out[-1][1] + 1)
            else:
                out.append(("ZERO", 1))
        else:
            out.append(("other", t))
    return [tuple(x) for x in out]


def hash_events(pe, events, mem=None, digest_out=None):
    """interpret the memory and hash calls of a trace.  returns (mem, digests) where digests = list of dicts
    {kind, key(range list, hmac only), stream(byte tokens), out(address)} in order of their *_final call"""
    mem = mem or Mem()
    ctxs = {}
    digests = []

    def ev(x, b):
        return r_mpt.eval_expr(x, {}, pe._hook(b, {}))
    for e, b in events:
        for x, _ in walk(e):
            k = x.get("k")
            if k == "call":
                fn = x.get("fn")
                a = x["args"]
                try:
                    if fn == "memset":
                        mem.fill(ev(a[0], b), ev(a[1], b), ev(a[2], b))
                    elif fn in ("memcpy", "memmove"):
                        d, s_, n = ev(a[0], b), ev(a[1], b), ev(a[2], b)
                        if d in ctxs or s_ in ctxs:
                            ctxs[d] = {"kind": ctxs[s_]["kind"], "key": ctxs[s_].get("key"), "stream": list(ctxs[s_]["stream"])} if s_ in ctxs else None
                        else:
                            mem.copy(d, s_, n)
                    elif fn in ("md5_init",):
                        ctxs[ev(a[0], b)] = {"kind": "md5", "stream": []}
                    elif fn == "hmac_md5_init":
                        kp, kl = ev(a[0], b), ev(a[1], b)
                        ctxs[ev(a[2], b)] = {"kind": "hmac", "key": [mem.get(kp + i) for i in range(kl)], "stream": []}
                    elif fn in ("md5_update", "hmac_md5_update"):
                        c = ctxs.get(ev(a[0], b))
                        p, n = ev(a[1], b), ev(a[2], b)
                        if c is not None:
                            c["stream"] += [mem.get(p + i) for i in range(n)]
                    elif fn in ("md5_final", "hmac_md5_final"):
                        cp = ev(a[0], b)
                        c = ctxs.get(cp)
                        o = ev(a[1], b)
                        if c is not None:
                            d = {"kind": c["kind"], "key": c.get("key"), "stream": list(c["stream"]), "out": o, "id": len(digests)}
                            digests.append(d)
                            for i in range(16):
                                mem.m[o + i] = ("digest", d["id"], i)
                            ctxs[cp] = None
                except r_mpt.Unknown:
                    digests.append({"kind": "unknown", "stream": [], "out": None, "id": len(digests), "why": "argument of %s at line %s not evaluable" % (fn, x.get("ln"))})
            elif k == "bin" and x["op"] in ("=", "^=") and strip_casts(x["x"]).get("k") in ("sub", "un", "mem"):
                lv = strip_casts(x["x"])
                try:
                    addr = pe._addr(lv, lambda z: ev(z, b))
                except r_mpt.Unknown:
                    continue
                rv = strip_casts(x["y"])
                src = None
                if rv.get("k") in ("sub", "un", "mem"):
                    try:
                        src = mem.get(pe._addr(rv, lambda z: ev(z, b)))
                    except r_mpt.Unknown:
                        src = None
                if x["op"] == "^=" and src is not None:
                    mem.m[addr] = ("xor", mem.get(addr), src)
                elif x["op"] == "=":
                    if src is not None:
                        mem.m[addr] = src
                    else:
                        try:
                            mem.m[addr] = ("const", ev(x["y"], b))
                        except r_mpt.Unknown:
                            mem.m[addr] = ("unknown", x.get("ln"))
    return mem, digests


# ------------------------------------------------------------------ R-STREAM

def _ref_stream(fname, code, inside, have_req, req_is_status_server):
    """RFC stream as range list, or 'error' / 'copy' (random authenticators are copied, nothing is hashed)"""
    attrs = ("PKT", 20, PKT_LEN - 20)
    hdr = ("PKT", 0, 4)
    own = ("PKT", 4, 16)
    req = ("REQ", 4, 16)
    zero = ("ZERO", 16)
    key = ("KEY", 0, KEY_LEN)
    if fname == "radius_pkt_authenticator_calc":
        if code in RANDOM_AUTH:
            return "copy"
        if code is None:
            return [("PKT", 0, PKT_LEN), key] if inside else "error"
        if inside:
            return [("PKT", 0, PKT_LEN), key]
        if code in ZERO_AUTH:
            return [hdr, zero, attrs, key]
        return [hdr, req, attrs, key] if have_req else "error"
    # Message-Authenticator: HMAC over the packet with the attribute value zeroed and the authenticator chosen per type
    before = ("PKT", 20, MA_OFF + 2 - 20)
    after = ("PKT", MA_OFF + 18, PKT_LEN - (MA_OFF + 18))
    if inside or code in RANDOM_AUTH:
        return [("PKT", 0, MA_OFF + 2), zero, after]
    if code is None:
        return "error"
    # (Accounting-Response is a response: its Message-Authenticator is keyed on the Request Authenticator like every other
    # reply; an earlier version of this table had copied the zero-vector special case from the code under analysis)
    if code in ZERO_AUTH:
        return [hdr, zero, before, zero, after]
    return [hdr, req, before, zero, after] if have_req else "error"


def stream_rule(rep, u, consts):
    n = 0
    pe = r_stride.PE(u)
    for fname in ("radius_pkt_authenticator_calc", "radius_pkt_attr_msg_authenticator_calc"):
        fn = u.fn(fname)
        if fn is None:
            raise driver.AnalysisBroken("anchor %s vanished" % fname)
        rep.functions.add(fname)
        out_param = "authenticator" if fname == "radius_pkt_authenticator_calc" else "msg_authenticator"
        for code in CODES + [None]:
            cv = consts[code] if code else 99
            for inside, have_req, rss, alias in itertools.product((0, 1), (0, 1), (0, 1), (0, 1)):
                if not have_req and rss:
                    continue
                if alias and fname == "radius_pkt_authenticator_calc" and code in RANDOM_AUTH:
                    continue      # memcpy onto itself
                out_addr = OUT
                if alias:
                    out_addr = PKT + 4 if fname == "radius_pkt_authenticator_calc" else PKT + MA_OFF + 2
                bind = {"pkt": PKT, "pkt->code": cv, "ntohs(pkt->len)": PKT_LEN, "pkt_req": REQ if have_req else 0,
                        "pkt_req->code": consts["RADIUS_PKT_TYPE_STATUS_SERVER"] if rss else consts["RADIUS_PKT_TYPE_ACCESS_REQUEST"],
                        "key": KEY, "key_len": KEY_LEN, out_param: out_addr, "pkt_authenticator_inside": inside,
                        "attr": PKT + MA_OFF, "attr->len": 18}
                ev, ret = pe.trace(fn, bind)
                inst = "%s[%s inside=%d req=%s%s%s]" % ("auth" if fname == "radius_pkt_authenticator_calc" else "msg-auth",
                                                      (code or "unknown-code").replace("RADIUS_PKT_TYPE_", ""), inside,
                                                      "none" if not have_req else ("status-server" if rss else "other"),
                                                      "", " in-place" if alias else "")
                desc = "the bytes hashed are the RFC stream for this packet type and the digest is stored in the output argument"
                if isinstance(ret, str):
                    rep.undecided("R-STREAM", fn, inst, desc, ret)
                    continue
                n += 1
                mem = Mem()
                if alias and fname == "radius_pkt_attr_msg_authenticator_calc":
                    pass
                mem, digs = hash_events(pe, ev, mem)
                want = _ref_stream(fname, code, inside, have_req, rss)
                if want == "error":
                    if ret != 0:
                        rep.proved("R-STREAM", fn, inst, desc, "rejected with %s" % ret)
                    else:
                        rep.violated("R-STREAM", fn, inst, desc, "returns 0 although the RFC defines no authenticator for this case")
                    continue
                if ret != 0:
                    rep.violated("R-STREAM", fn, inst, desc, "returns %s for a case the RFC defines" % ret)
                    continue
                if want == "copy":
                    got = _ranges([mem.get(out_addr + i) for i in range(16)])
                    ok = got == [("PKT", 4, 16)] and not digs
                    (rep.proved if ok else rep.violated)("R-STREAM", fn, inst, desc, "output = %s, %d digests" % (got, len(digs)))
                    continue
                if len(digs) != 1 or digs[0]["kind"] == "unknown":
                    rep.violated("R-STREAM", fn, inst, desc, "expected exactly one digest, found %d %s" % (len(digs), [d.get("why") for d in digs if d.get("why")]))
                    continue
                d = digs[0]
                got = _ranges(d["stream"])
                # in-place: the zeroed output bytes inside the packet read as ZERO, which is what the RFC demands there
                if alias:
                    want2 = []
                    for r in want:
                        want2.append(r)
                    want = want2
                    got = _norm_alias(got)
                    want = _norm_alias(want)
                bad = []
                if _merge(got) != _merge(want):
                    bad.append("hashed %s, RFC stream is %s" % (_merge(got), _merge(want)))
                if d["out"] != out_addr:
                    bad.append("digest stored at %s+%d, not in the output argument" % _region(d["out"]))
                if d["kind"] == "hmac":
                    kr = _ranges(d["key"])
                    if kr != [("KEY", 0, KEY_LEN)]:
                        bad.append("HMAC keyed with %s" % kr)
                    if fname == "radius_pkt_authenticator_calc":
                        bad.append("authenticator computed with HMAC")
                elif fname != "radius_pkt_authenticator_calc":
                    bad.append("Message-Authenticator computed with plain MD5")
                (rep.violated if bad else rep.proved)("R-STREAM", fn, inst, desc, "; ".join(bad) if bad else "stream %s" % _merge(got))
    return n


def sign_verify_agreement(rep, u, consts):
    """What the library signs it must verify.  radius_pkt_sign computes the Message-Authenticator with the packet's own
    authenticator field "as is" (whatever radius_pkt_init / radius_pkt_reply_init put there); radius_pkt_verify chooses the
    16 bytes by packet type (zero, the request's authenticator, or the field as is).  For every packet code and both kinds of
    request the two choices must name the same bytes."""
    finit = u.fn("radius_pkt_init")
    fcalc = u.fn("radius_pkt_attr_msg_authenticator_calc")
    if finit is None or fcalc is None:
        raise driver.AnalysisBroken("anchors radius_pkt_init / radius_pkt_attr_msg_authenticator_calc vanished")
    rep.functions.update([finit.name, fcalc.name])
    n = 0
    ARG = REQ + 4
    for code in CODES:
        cv = consts[code]
        for reply in ((0,) if code in (RANDOM_AUTH | ZERO_AUTH) else (1,)):
            # what init leaves in the field: for a reply the request's authenticator is handed in, for a request the caller's
            pe = r_stride.PE(u)
            ev, ret = pe.trace(finit, {"pkt": PKT, "pkt_buf_size": 4096, "pkt_size_ret": 0, "code": cv, "id": 7, "authenticator": ARG})
            if isinstance(ret, str) or ret != 0:
                continue
            src = None
            for e, b in ev:
                for x, _ in walk(e):
                    if x.get("k") == "call" and x.get("fn") == "memset" and "authenticator" in key(x["args"][0]):
                        src = "ZERO"
                    if x.get("k") == "call" and x.get("fn") == "memcpy" and "authenticator" in key(x["args"][0]):
                        src = "ARG"
            if src is None:
                continue
            for rss in ((0, 1) if reply else (0,)):
                pe2 = r_stride.PE(u)
                bind = {"pkt": PKT, "pkt->code": cv, "ntohs(pkt->len)": PKT_LEN, "pkt_req": REQ if reply else 0,
                        "pkt_req->code": consts["RADIUS_PKT_TYPE_STATUS_SERVER"] if rss else consts["RADIUS_PKT_TYPE_ACCOUNTING_REQUEST"],
                        "key": KEY, "key_len": KEY_LEN, "msg_authenticator": OUT, "pkt_authenticator_inside": 0, "attr": PKT + MA_OFF, "attr->len": 18}
                ev2, ret2 = pe2.trace(fcalc, bind)
                if isinstance(ret2, str) or ret2 != 0:
                    continue
                mem, digs = hash_events(pe2, ev2, Mem())
                if len(digs) != 1:
                    continue
                st_ = _merge(_ranges(digs[0]["stream"]))
                # the element after the 4 header bytes
                second = st_[1] if len(st_) > 1 else None
                if st_ and st_[0][0] == "PKT" and st_[0][1] == 0 and st_[0][2] >= 20:
                    vsrc = "FIELD"
                elif second and second[0] == "ZERO":
                    vsrc = "ZERO"
                elif second and second[0] == "REQ":
                    vsrc = "REQ"
                else:
                    vsrc = "?"
                # at signing time the field holds: ZERO, or the argument (= the request's authenticator for a reply, the
                # caller's random bytes for a request)
                signed = "ZERO" if src == "ZERO" else ("REQ" if reply else "FIELD")
                n += 1
                nm = code.replace("RADIUS_PKT_TYPE_", "")
                inst = "sign-vs-verify[%s %s]" % (nm, ("reply to status-server" if rss else "reply") if reply else "request")
                desc = "Message-Authenticator of %s: the authenticator bytes hashed by radius_pkt_sign and by radius_pkt_verify are the same" % nm
                if vsrc == "?":
                    rep.undecided("R-AGREE", fcalc, inst, desc, "verification stream not recognised: %s" % st_[:3])
                elif signed == vsrc:
                    rep.proved("R-AGREE", fcalc, inst, desc, "%s on both sides" % signed)
                else:
                    rep.violated("R-AGREE", fcalc, inst, desc, "signing hashes %s, verification hashes %s: a packet the library signed is rejected by its own "
                                 "radius_pkt_verify" % ({"REQ": "the request's authenticator", "ZERO": "16 zero bytes", "FIELD": "the field as is"}[signed],
                                                        {"REQ": "the request's authenticator", "ZERO": "16 zero bytes", "FIELD": "the field as is"}[vsrc]))
    return n


def sign_once_rule(rep, ur, uc):
    """radius_pkt_sign transforms the packet in place: the User-Password value is hidden from and to the attribute's own
    bytes, and with add_msg_authr != 0 a Message-Authenticator attribute is appended (EEXIST if there is one).  It is
    therefore not idempotent, and a packet must be signed at most once.  The client signs inside radius_client_send_new;
    that function may run again for the same query (fail-over to the next server, with that server's secret)."""
    fs = ur.fn("radius_pkt_sign")
    fc = uc.fn("radius_client_send_new")
    if fs is None or fc is None:
        raise driver.AnalysisBroken("anchors radius_pkt_sign / radius_client_send_new vanished")
    rep.functions.update([fs.name, fc.name])
    inplace = False
    for _p, _r, c, _ps in fs.calls({"radius_pkt_attr_password_encode"}):
        if len(c["args"]) >= 6 and key(strip_casts(c["args"][1])) == key(strip_casts(c["args"][5])):
            inplace = True
    signs = [c for _p, _r, c, _ps in fc.calls({"radius_pkt_sign"})]
    sites = [(f.name, c.get("ln")) for f in uc.function_list if f.has_cfg for _p, _r, c, _ps in f.calls({fc.name})]
    desc = "a packet whose User-Password radius_pkt_sign hides in place is signed at most once (radius_client_send_new has one caller per query)"
    if not signs:
        rep.proved("R-TS", fc, "sign-once", desc, "the client does not sign in radius_client_send_new")
    elif inplace and len(sites) > 1:
        rep.violated("R-TS", fc, "sign-once", desc, "radius_client_send_new (which signs at line %s) is called from %s: on fail-over the same buffer is signed "
                     "again - the already hidden password is hidden a second time and, with add_msg_authr = 1, the second call returns EEXIST" % (
                         signs[0].get("ln"), ", ".join("%s:%s" % s_ for s_ in sites)), signs[0].get("ln"))
    else:
        rep.proved("R-TS", fc, "sign-once", desc, "in-place hiding: %s; call sites: %d" % (inplace, len(sites)))
    return 1


def _merge(rs):
    out = []
    for r in rs:
        if out and r[0] == out[-1][0] and r[0] not in ("ZERO", "other") and out[-1][1] + out[-1][2] == r[1]:
            out[-1] = (r[0], out[-1][1], out[-1][2] + r[2])
        elif out and r[0] == "ZERO" and out[-1][0] == "ZERO":
            out[-1] = ("ZERO", out[-1][1] + r[1])
        else:
            out.append(tuple(r))
    return out


def _norm_alias(rs):
    return rs


# ------------------------------------------------------------------ R-HIDE

def hiding_rule(rep, u):
    """RFC 2865 5.2 for 1..3 blocks; buffers separate and aliased"""
    n = 0
    pe = r_stride.PE(u)
    AUTH, SRC, DST = 0x50000, 0x60000, 0x70000
    global REGIONS
    saved = REGIONS
    REGIONS = (("AUTH", AUTH), ("SRC", SRC), ("DST", DST), ("KEY", KEY), ("PKT", PKT))
    try:
        for fname, src_p, len_p in (("radius_pkt_attr_password_encode", "password", "password_len"),
                                    ("radius_pkt_attr_password_decode", "enc_password", "enc_password_len")):
            fn = u.fn(fname)
            if fn is None:
                raise driver.AnalysisBroken("anchor %s vanished" % fname)
            rep.functions.add(fname)
            enc = fname.endswith("encode")
            for blocks, alias in itertools.product((1, 2, 3), (0, 1)):
                L = 16 * blocks
                dst = SRC if alias else DST
                bind = {"authenticator": AUTH, src_p: SRC, len_p: L, "key": KEY, "key_len": KEY_LEN, "buf": dst, "buf_size": L,
                        "buf_size_ret": 0}
                pe2 = r_stride.PE(u)
                ev, ret = pe2.trace(fn, bind, max_steps=40000)
                inst = "%s[%d block(s)%s]" % ("hide" if enc else "unhide", blocks, " in-place" if alias else "")
                desc = "RFC 2865 5.2: block i is XORed with MD5(secret | previous ciphertext block), the first with MD5(secret | authenticator)"
                if isinstance(ret, str):
                    rep.undecided("R-HIDE", fn, inst, desc, ret)
                    continue
                n += 1
                if ret != 0:
                    rep.violated("R-HIDE", fn, inst, desc, "returns %s for a valid %d-byte input" % (ret, L))
                    continue
                mem, digs = hash_events(pe2, ev)
                bad = None
                for j in range(blocks):
                    for i in range(16):
                        t = mem.get(dst + 16 * j + i)
                        want_in = ("in", "SRC", 16 * j + i)
                        if t[0] != "xor" or t[1] != want_in or t[2][0] != "digest" or t[2][2] != i:
                            bad = bad or "output byte %d is %s, expected input byte XOR digest byte %d" % (16 * j + i, _short(t), i)
                            continue
                        d = digs[t[2][1]]
                        if d["kind"] != "md5":
                            bad = bad or "block %d digest is not MD5" % j
                            continue
                        st = d["stream"]
                        keyr = _ranges(st[:KEY_LEN])
                        if keyr != [("KEY", 0, KEY_LEN)] or len(st) != KEY_LEN + 16:
                            bad = bad or "block %d: MD5 input is %s, expected secret then 16 bytes" % (j, _merge(_ranges(st))[:3])
                            continue
                        prev = st[KEY_LEN:]
                        if j == 0:
                            if _ranges(prev) != [("AUTH", 0, 16)]:
                                bad = bad or "block 0 chained from %s, expected the request authenticator" % _merge(_ranges(prev))
                        else:
                            # previous CIPHERTEXT block: for decode the input block j-1; for encode the output block j-1
                            for i2 in range(16):
                                pt = prev[i2]
                                if enc:
                                    ok = pt[0] == "xor" and pt[1] == ("in", "SRC", 16 * (j - 1) + i2)
                                else:
                                    ok = pt == ("in", "SRC", 16 * (j - 1) + i2)
                                if not ok:
                                    bad = bad or "block %d chained from %s, expected ciphertext block %d" % (j, _short(pt), j - 1)
                if bad:
                    rep.violated("R-HIDE", fn, inst, desc, bad)
                else:
                    rep.proved("R-HIDE", fn, inst, desc, "%d digests; every output byte = input ^ MD5(secret | c(i-1))" % len(digs))
    finally:
        REGIONS = saved
    return n


def _short(t):
    if t[0] == "in":
        return "%s[%d]" % (t[1], t[2])
    if t[0] == "xor":
        return "(%s ^ %s)" % (_short(t[1]), _short(t[2]))
    if t[0] == "digest":
        return "digest#%d[%d]" % (t[1], t[2])
    return str(t)


# ------------------------------------------------------------------ R-LIVE

def live_rule(rep, u, consts):
    """each attribute class can be added: the success return of radius_pkt_attr_add is reachable with valid arguments"""
    fn = u.fn("radius_pkt_attr_add")
    if fn is None:
        raise driver.AnalysisBroken("anchor radius_pkt_attr_add vanished")
    rep.functions.add(fn.name)
    n = 0
    classes = [("User-Password", consts["RADIUS_ATTR_TYPE_USER_PASSWORD"], 8), ("Message-Authenticator", consts["RADIUS_ATTR_TYPE_MSG_AUTHENTIC"], 0),
               ("User-Name (string)", 1, 5), ("NAS-IP-Address (ipv4)", 4, 4), ("NAS-Port (int32)", 5, 4)]
    for label, ty, ln in classes:
        pe = r_stride.PE(u)
        bind = {"pkt": PKT, "pkt_buf_size": 4096, "pkt_size_ret": 0, "type": ty, "len": ln, "data": 0x60000, "offset_ret": 0,
                "ntohs(pkt->len)": 20}
        outs = pe.outcomes(fn, bind, 0)
        vals = sorted({v for v, s_ in outs if v is not None})
        if any(v == 0 for v, s_ in outs):
            verdict = "sure" if any(v == 0 and s_ for v, s_ in outs) else "unsure"
        elif any(v is None for v, s_ in outs):
            verdict = "unknown"
        else:
            verdict = "no"
        n += 1
        inst = "attr-add[%s]" % label
        desc = "radius_pkt_attr_add can succeed for a valid %s attribute" % label
        if verdict == "no":
            rep.violated("R-LIVE", fn, inst, desc, "with type=%d len=%d and an empty 4096-byte packet every path returns an error "
                         "(possible results: %s)" % (ty, ln, vals))
        elif verdict == "unknown":
            rep.undecided("R-LIVE", fn, inst, desc, "a return value could not be evaluated")
        else:
            rep.proved("R-LIVE", fn, inst, desc, "a success return is reachable (%s)" % verdict)
    return n


def password_size_rule(rep, u, consts):
    """RFC 2865 5.2: the User-Password value is the password padded with nulls to a multiple of 16 octets, at least 16 (the
    attribute's length is 18..130).  For password lengths 0..128 the data length radius_pkt_attr_add hands to the allocator
    is max(16, ceil16(len)); the size query it may make to radius_pkt_attr_password_encode is answered by evaluating that
    function for the same length."""
    fn = u.fn("radius_pkt_attr_add")
    enc = u.fn("radius_pkt_attr_password_encode")
    if fn is None or enc is None:
        raise driver.AnalysisBroken("anchor radius_pkt_attr_add / radius_pkt_attr_password_encode vanished")
    allocs = [c for _p, _r, c, _ps in fn.calls({"radius_pkt_attr_alloc_raw"})]
    if not allocs:
        raise driver.AnalysisBroken("radius_pkt_attr_add does not call radius_pkt_attr_alloc_raw")
    ty = consts["RADIUS_ATTR_TYPE_USER_PASSWORD"]
    n = 0
    bad = undec = None
    enc_params = [p["n"] for p in enc.params]
    for ln in (0, 1, 15, 16, 17, 31, 32, 33, 100, 127, 128):
        # what the encoder reports as size for this length (size query: no buffers)
        pe0 = r_stride.PE(u)
        b0 = {pn_: 0 for pn_ in enc_params}
        b0[enc_params[2]] = ln
        b0[enc_params[-1]] = 0x7f000
        ev0, ret0 = pe0.trace(enc, b0)
        reported = None
        for e, b in ev0:
            for x, _ in walk(e):
                if x.get("k") == "bin" and x["op"] == "=" and key(strip_casts(x["x"])) == "*(%s)" % enc_params[-1]:
                    try:
                        reported = r_mpt.eval_expr(x["y"], {}, pe0._hook(b, {}))
                    except r_mpt.Unknown:
                        reported = None
        pe = r_stride.PE(u, call_default={"radius_pkt_attr_find": consts["ENOATTR"], "radius_pkt_attr_alloc_raw": 0,
                                          "radius_pkt_attr_password_encode": 0 if ret0 == 0 else (ret0 if isinstance(ret0, int) else 0)})
        if reported is not None:
            pe.out_default = {"radius_pkt_attr_password_encode": {len(enc_params) - 1: reported}}
        bind = {"pkt": PKT, "pkt_buf_size": 4096, "pkt_size_ret": 0, "type": ty, "len": ln, "data": 0x60000, "offset_ret": 0}
        ev, ret = pe.trace(fn, bind)
        n += 1
        got = None
        for e, b in ev:
            for x, _ in walk(e):
                if any(x is a for a in allocs):
                    vs = pe.evals(x["args"][4], b, 0)
                    got = vs[0][0] if len(vs) == 1 else None
        want = max(16, (ln + 15) // 16 * 16)
        if got is None:
            undec = undec or "password length %d: allocation size not evaluable (%s)" % (ln, ret)
        elif got != want:
            bad = bad or "a %d-byte password is given a %d-byte value instead of %d%s" % (
                ln, got, want, ": the attribute is shorter than the 16 octets the RFC and the library's own length check require" if got < 16 else "")
    desc = "radius_pkt_attr_add sizes the User-Password value as max(16, ceil16(len)) for password lengths 0..128"
    (rep.violated if bad else rep.undecided if undec else rep.proved)("R-SPEC", fn, "password-value-size", desc, bad or undec or "%d lengths" % n)
    return n


# ------------------------------------------------------------------ R-LAYOUT (DNS writer/reader, RADIUS append)

def _stores_loads(pe, events, unit, hdr_base):
    """(stores, loads): stores = {addr: (width, order fn, source key)}; loads = {addr: (width, order fn)}"""
    stores, loads = {}, {}

    def ev(x, b):
        return r_mpt.eval_expr(x, {}, pe._hook(b, {}))
    for e, b in events:
        for x, ps in walk(e):
            if x.get("k") == "bin" and x["op"] == "=":
                lv = strip_casts(x["x"])
                if lv.get("k") == "mem" and lv.get("arrow"):
                    try:
                        a = pe._addr(lv, lambda z: ev(z, b))
                    except r_mpt.Unknown:
                        continue
                    w = unit.type(lv["t"]).get("size") if "t" in lv else None
                    rv = strip_casts(x["y"])
                    order = rv.get("fn") if rv.get("k") == "call" and rv.get("fn") in ("htons", "htonl", "ntohs", "ntohl") else None
                    src = key(strip_casts(rv["args"][0])) if order else key(rv)
                    stores[a - hdr_base] = (w, order, src)
            if x.get("k") == "mem" and x.get("arrow") and not any(p.get("k") == "bin" and p["op"] == "=" and strip_casts(p["x"]) is x for p in ps):
                try:
                    a = pe._addr(x, lambda z: ev(z, b))
                except r_mpt.Unknown:
                    continue
                w = unit.type(x["t"]).get("size") if "t" in x else None
                order = None
                for p in reversed(ps):
                    if p.get("k") == "call" and p.get("fn") in ("htons", "htonl", "ntohs", "ntohl"):
                        order = p["fn"]
                        break
                    if p.get("k") not in ("cast",):
                        break
                loads.setdefault(a - hdr_base, set()).add((w, order))
            if x.get("k") == "call" and x.get("fn") == "memcpy":
                try:
                    d, n_ = ev(x["args"][0], b), ev(x["args"][2], b)
                    stores[d - hdr_base] = (n_, "memcpy", key(strip_casts(x["args"][1])))
                except r_mpt.Unknown:
                    pass
            if x.get("k") == "un" and x.get("op") == "&" and strip_casts(x["e"]).get("k") == "mem":
                try:
                    a = pe._addr(strip_casts(x["e"]), lambda z: ev(z, b))
                    loads.setdefault(a - hdr_base, set()).add((None, "addr"))
                except r_mpt.Unknown:
                    pass
    return stores, loads


INV = {"htons": "ntohs", "htonl": "ntohl", None: None}


def dns_layout_rule(rep, u):
    HDR, NAME, DATA = 0x10000, 0x60000, 0x61000
    MSG, LBL, DSZ = 40, 11, 6
    n = 0
    status = {nm: 0 for nm in ("dns_msg_name2sequence_of_labels", "SequenceOfLabelsGetSize", "dns_msg_sequence_of_labels2name")}
    cases = [
        ("dns_msg_question_add", {"hdr": HDR, "msg_size": MSG, "msgbuf_size": 512, "compress": 0, "name": NAME, "name_len": LBL - 2,
                                  "query_type": 1, "query_class": 1, "msg_size_ret": 0x7000},
         "dns_msg_question_get_data", {"hdr": HDR, "msg_size": 512, "offset": MSG, "name": 0, "name_len": 0, "query_type": 0x7100,
                                       "query_class": 0x7108, "question_size_ret": 0x7110},
         {"type": "query_type", "class": "query_class"}, "*(msg_size_ret)", "*(question_size_ret)"),
        ("dns_msg_rr_add", {"hdr": HDR, "msg_size": MSG, "msgbuf_size": 512, "compress": 0, "name": NAME, "name_len": LBL - 2,
                            "type": 1, "class": 1, "ttl": 60, "data_size": DSZ, "data": DATA, "rr_size": 0x7000},
         "dns_msg_rr_get_data", {"hdr": HDR, "msg_size": 512, "offset": MSG, "name": 0, "name_len": 0, "type": 0x7100, "class": 0x7108,
                                 "ttl": 0x7110, "data_size": 0x7118, "data": 0x7120, "rr_size": 0x7128,
                                 "ntohs(dns_rr->rdlength)": DSZ, "ntohs(dns_rr->type)": 1},
         {"type": "type", "class": "class", "ttl": "ttl", "rdlength": "data_size"}, "*(rr_size)", "*(rr_size)"),
    ]
    for wname, wbind, rname, rbind, fields, wsize_key, rsize_key in cases:
        wf, rf = u.fn(wname), u.fn(rname)
        if wf is None or rf is None:
            raise driver.AnalysisBroken("anchor %s / %s vanished" % (wname, rname))
        rep.functions.update([wname, rname])
        pe = r_stride.PE(u, call_default=status)
        pe.out_default = {"dns_msg_name2sequence_of_labels": {6: LBL}, "SequenceOfLabelsGetSize": {2: LBL}}
        wev, wret = pe.trace(wf, wbind)
        rev, rret = pe.trace(rf, rbind)
        inst = "%s<->%s" % (wname, rname)
        desc = "every field %s stores is loaded by %s from the same address, width and (inverse) byte order; reported sizes agree" % (wname, rname)
        if isinstance(wret, str) or isinstance(rret, str):
            rep.undecided("R-LAYOUT", wf, inst, desc, "%s / %s" % (wret, rret))
            continue
        n += 1
        ws, _ = _stores_loads(pe, wev, u, HDR)
        _, rl = _stores_loads(pe, rev, u, HDR)
        bad = []
        if wret != 0 or rret != 0:
            bad.append("writer returns %s, reader returns %s on a well-formed record" % (wret, rret))
        fixed = {a: v for a, v in ws.items() if a >= MSG}
        if len([v for v in fixed.values() if v[1] != "memcpy"]) < len(fields):
            bad.append("writer stores %d fixed fields, expected %d" % (len([v for v in fixed.values() if v[1] != "memcpy"]), len(fields)))
        for a, (w, order, src) in sorted(fixed.items()):
            got = rl.get(a)
            if order == "memcpy":
                if got is None or (None, "addr") not in got:
                    bad.append("rdata written at +%d is not where the reader points its data pointer" % a)
                continue
            if got is None:
                bad.append("field written at +%d (%s) is never read by the reader (it reads %s)" % (a, src, sorted(rl)))
                continue
            if not any(gw == w and go == INV.get(order, "?") for gw, go in got if go != "addr"):
                bad.append("field at +%d: written %d bytes with %s, read as %s" % (a, w, order, sorted(got, key=str)))
        # sizes
        wsz = _final_store(pe, wev, wsize_key)
        rsz = _final_store(pe, rev, rsize_key)
        if wsz is None or rsz is None or wsz - MSG != rsz:
            bad.append("writer reports message size %s (record = %s bytes), reader computes %s" % (wsz, None if wsz is None else wsz - MSG, rsz))
        (rep.violated if bad else rep.proved)("R-LAYOUT", wf, inst, desc, "; ".join(bad[:3]) if bad else "%d fields, record of %s bytes" % (len(fixed), rsz))
    return n


def _final_store(pe, events, lkey):
    val = None
    for e, b in events:
        for x, _ in walk(e):
            if x.get("k") == "bin" and x["op"] == "=" and key(strip_casts(x["x"])) == lkey:
                try:
                    val = r_mpt.eval_expr(x["y"], {}, pe._hook(b, {}))
                except r_mpt.Unknown:
                    val = None
    return val


def radius_append_rule(rep, u):
    """alloc_raw: header length grows by exactly the attribute's own length byte; the attribute starts at the old end"""
    fn = u.fn("radius_pkt_attr_alloc_raw")
    if fn is None:
        raise driver.AnalysisBroken("anchor radius_pkt_attr_alloc_raw vanished")
    rep.functions.add(fn.name)
    pe = r_stride.PE(u)
    OLD, LEN = 44, 9
    bind = {"pkt": PKT, "pkt_buf_size": 4096, "pkt_size_ret": 0x7000, "type": 1, "len": LEN, "attr_ret": 0x7100, "offset_ret": 0x7108,
            "ntohs(pkt->len)": OLD}
    ev, ret = pe.trace(fn, bind)
    inst = "append"
    desc = "the header length grows by the attribute's own length field and the attribute starts at the old packet end"
    if isinstance(ret, str):
        rep.undecided("R-LAYOUT", fn, inst, desc, ret)
        return 0
    alen = _final_store(pe, ev, "attr->len")
    attr_at = None
    newlen = None
    for e, b in ev:
        for x, _ in walk(e):
            if x.get("k") == "bin" and x["op"] == "=" and key(strip_casts(x["x"])) == "pkt->len":
                rv = strip_casts(x["y"])
                if rv.get("k") == "call" and rv.get("fn") == "htons":
                    try:
                        newlen = r_mpt.eval_expr(rv["args"][0], {}, pe._hook(b, {}))
                    except r_mpt.Unknown:
                        pass
            if x.get("k") == "bin" and x["op"] == "=" and key(strip_casts(x["x"])) == "attr" and attr_at is None:
                try:
                    attr_at = r_mpt.eval_expr(x["y"], {}, pe._hook(b, {}))
                except r_mpt.Unknown:
                    pass
    bad = []
    if ret != 0:
        bad.append("returns %s" % ret)
    if alen != LEN + 2:
        bad.append("attr->len = %s for %d data bytes" % (alen, LEN))
    if newlen is None or alen is None or newlen - OLD != alen:
        bad.append("header length %s -> %s but the attribute claims %s bytes" % (OLD, newlen, alen))
    if attr_at != PKT + OLD:
        bad.append("attribute placed at offset %s, packet ended at %d" % (None if attr_at is None else attr_at - PKT, OLD))
    (rep.violated if bad else rep.proved)("R-LAYOUT", fn, inst, desc, "; ".join(bad) if bad else "len %d -> %d, attr->len %d" % (OLD, newlen, alen))
    # "a packet assembled from attributes passes the library's checks": whatever length the builder stores, the validator's
    # length test (<= RADIUS_PKT_MAX_SIZE, and it fits the 16-bit field) accepts - for old lengths around the limit and
    # caller buffers larger than a RADIUS packet may be
    mx = macro_consts(["RADIUS_PKT_MAX_SIZE"]).get("RADIUS_PKT_MAX_SIZE")
    if mx is None:
        raise driver.AnalysisBroken("RADIUS_PKT_MAX_SIZE not foldable")
    bad2 = und2 = None
    cases = 0
    for old_len, ln, cap in itertools.product((20, mx - 300, mx - 10, mx - 2, mx, 65400, 65534), (0, 6, 253), (mx, 2 * mx, 70000)):
        if old_len > cap:
            continue
        pe2 = r_stride.PE(u)
        pe2.wrap = True
        ev2, ret2 = pe2.trace(fn, dict(bind, **{"pkt_buf_size": cap, "len": ln, "ntohs(pkt->len)": old_len}))
        cases += 1
        if isinstance(ret2, str):
            und2 = und2 or ret2
            continue
        if ret2 != 0:
            continue
        stored = None
        for e, b in ev2:
            for x, _ in walk(e):
                if x.get("k") == "bin" and x["op"] == "=" and key(strip_casts(x["x"])) == "pkt->len":
                    rv = strip_casts(x["y"])
                    if rv.get("k") == "call" and rv.get("fn") == "htons":
                        try:
                            stored = r_mpt.eval_expr(rv["args"][0], {}, pe2._hook(b, {}))
                        except r_mpt.Unknown:
                            stored = None
        want = old_len + 2 + ln
        if stored is None:
            und2 = und2 or "stored length not evaluable"
        elif stored != want or stored > mx:
            bad2 = bad2 or "packet of %d bytes in a %d-byte buffer, %d data bytes: success with header length %d%s" % (
                old_len, cap, ln, stored, " (the 16-bit field wrapped, the packet has %d bytes)" % want if stored != want else
                " > RADIUS_PKT_MAX_SIZE %d: radius_pkt_chk rejects the packet the builder just made" % mx)
    desc2 = "radius_pkt_attr_alloc_raw never stores a packet length the validator rejects (<= %d, no 16-bit wrap)" % mx
    (rep.violated if bad2 else rep.undecided if und2 else rep.proved)("R-AGREE", fn, "length-limit", desc2, bad2 or und2 or "%d cases" % cases)
    return 1


# RFC 6891 6.1.2 / 6.1.3: fixed part of the OPT pseudo-RR as it appears on the wire (offset, size)
OPT_RR_RFC = [("name", 0, 1), ("type", 1, 2), ("udp_payload_size", 3, 2), ("ex_rcode", 5, 1), ("version", 6, 1), ("ex_flags", 7, 2), ("rdlength", 9, 2)]


def opt_rr_layout_rule(rep, u, rec="dns_opt_rr_s"):
    """the record dns_msg_optrr_add fills is the wire image: its members sit at the RFC 6891 offsets (the TTL field of an
    OPT RR is EXTENDED-RCODE, VERSION, flags - in that order)"""
    r = u.records.get(rec)
    if r is None:
        raise driver.AnalysisBroken("record %s vanished" % rec)
    have = {f["n"]: (f["off"] // 8) for f in r["fields"]}
    n = 0
    for name, off, size in OPT_RR_RFC:
        n += 1
        desc = "%s.%s is at wire offset %d (RFC 6891)" % (rec, name, off)
        if have.get(name) == off:
            rep.proved("R-LAYOUT", "", "opt-rr:%s" % name, desc, "", file=DNS_H, unit="proto/dns.h")
        else:
            rep.violated("R-LAYOUT", "", "opt-rr:%s" % name, desc, "declared at offset %s: the octets of the OPT TTL field are exchanged on the wire" % have.get(name),
                         file=DNS_H, unit="proto/dns.h")
    return n


def dns_reported_size_rule(rep, u):
    """dns_msg_question_add / dns_msg_rr_add report the new message size through their last parameter; the next record is
    appended there.  The name written may be shorter than the 2 + name_len the pre-check assumes (the root name is one
    byte, a compressed name ends in a two-byte pointer), so on success the reported size must be recomputed from what
    dns_msg_name2sequence_of_labels actually wrote: msg_size + labels + fixed part (+ data).  Evaluated for the label
    sizes 1 (root), 2 (pointer), 5 and name_len + 2 (plain); an exactly fitting buffer must be accepted."""
    n = 0
    HDR = 0x40000
    for fname, fixed, has_data in (("dns_msg_question_add", 4, False), ("dns_msg_rr_add", 10, True)):
        fn = u.fn(fname)
        if fn is None:
            raise driver.AnalysisBroken("anchor %s vanished" % fname)
        rep.functions.add(fname)
        pn = [p["n"] for p in fn.params]
        outp = pn[-1]
        calls = [c for _p, _r, c, _ps in fn.calls({"dns_msg_name2sequence_of_labels"})]
        if len(calls) != 1:
            raise driver.AnalysisBroken("%s: expected one dns_msg_name2sequence_of_labels call" % fname)
        out_idx = len(calls[0]["args"]) - 1
        for name_len, S, exact in ((0, 1, False), (0, 1, True), (3, 5, False), (3, 5, True), (11, 2, False), (11, 13, True)):
            data_size = 4 if has_data else 0
            end = 12 + S + fixed + data_size
            cap = end if exact else 512
            pe = r_stride.PE(u, call_default={"dns_msg_name2sequence_of_labels": 0})
            pe.out_default = {"dns_msg_name2sequence_of_labels": {out_idx: S}}
            bind = {p_: 0 for p_ in pn}
            bind.update({"hdr": HDR, "msg_size": 12, "msgbuf_size": cap, "compress": 1, "name": 0x50000, "name_len": name_len, outp: 0x7000})
            if has_data:
                bind.update({"data_size": data_size, "data": 0x60000})
            ev, ret = pe.trace(fn, bind)
            n += 1
            inst = "reported-size:%s[name %d, labels %d%s]" % (fname, name_len, S, ", exact fit" if exact else "")
            desc = "%s reports msg_size + %d + %d%s as the new size when the name took %d byte(s)%s" % (
                fname, S, fixed, " + data" if has_data else "", S, " and accepts a buffer of exactly that size" if exact else "")
            if isinstance(ret, str):
                rep.undecided("R-AGREE", fn, inst, desc, ret)
                continue
            got = ev[-1][1].get("*(%s)" % outp) if ev else None
            if ret != 0:
                if exact:
                    rep.violated("R-AGREE", fn, inst, desc, "returns %s for a buffer of exactly %d bytes: the pre-check charges 2 + name_len = %d bytes for "
                                 "a name that takes %d" % (ret, cap, 2 + name_len, S))
                else:
                    rep.violated("R-AGREE", fn, inst, desc, "returns %s with room to spare" % ret)
            elif got != end:
                rep.violated("R-AGREE", fn, inst, desc, "success with reported size %s, the record ends at %d: the next record is appended %s byte(s) "
                             "behind it and the message no longer parses" % (got, end, (got - end) if isinstance(got, int) else "?"))
            else:
                rep.proved("R-AGREE", fn, inst, desc, "reported %d" % got)
    return n


# ------------------------------------------------------------------ R-PATH counter, R-SIB accessors, R-BAN compare

def counter_rule(rep, u):
    fn = u.fn("dns_msg_question_add")
    rep.functions.add(fn.name)
    n_ok = n_bad = 0
    paths = r_path.enum_paths(fn, fn.entry)
    bad = None
    for p in paths:
        cnt = 0
        retv = None
        for bid, _ in p:
            for e in fn.blocks[bid].elems:
                for x, _ps in walk(e):
                    if x.get("k") == "call" and x.get("fn") == "dns_hdr_qd_inc":
                        cnt += 1
                if e.get("k") == "ret":
                    retv = const_val(e.get("e"))
        if retv == 0:
            n_ok += 1
            if cnt != 1:
                bad = bad or "a success path bumps the counter %d times" % cnt
        else:
            n_bad += 1
            if cnt != 0:
                bad = bad or "a failing path bumps the counter"
    desc = "dns_msg_question_add increments QDCOUNT exactly once on success and never on failure"
    (rep.violated if bad or not n_ok else rep.proved)("R-PATH", fn, "qdcount", desc, bad or "%d success / %d failure paths" % (n_ok, n_bad))
    return 1


def accessor_siblings(rep, u):
    n = 0
    ref = {}
    for fld in ("qd", "an", "ns", "ar"):
        for op in ("get", "set", "inc", "dec"):
            fn = u.fn("dns_hdr_%s_%s" % (fld, op))
            if fn is None:
                raise driver.AnalysisBroken("anchor dns_hdr_%s_%s vanished" % (fld, op))
            body = core.alpha_keys(fn, lambda k_, fld=fld: k_.replace("->.", "->").replace("%s_count" % fld, "XX_count"))
            n += 1
            rep.functions.add(fn.name)
            desc = "dns_hdr_%s_%s is dns_hdr_qd_%s with the counter field replaced" % (fld, op, op)
            if op not in ref:
                ref[op] = body
                # the reference itself: it must touch its own counter only
                own = all("XX_count" in s or "_count" not in s for s in body)
                (rep.proved if own else rep.violated)("R-SIB", fn, "accessor", desc, "reference of the family")
            elif body == ref[op] and all("_count" not in s.replace("XX_count", "") for s in body):
                rep.proved("R-SIB", fn, "accessor", desc, "%d statements agree" % len(body))
            else:
                rep.violated("R-SIB", fn, "accessor", desc, "differs from dns_hdr_qd_%s: %s" % (op, [s for s in body if s not in ref[op]][:2]))
    return n


def ct_compare_rule(rep, u):
    n = 0
    for name in ("radius_pkt_authenticator_chk", "radius_pkt_attr_msg_authenticator_chk"):
        fn = u.fn(name)
        if fn is None:
            raise driver.AnalysisBroken("anchor %s vanished" % name)
        rep.functions.add(name)
        calls = [c.get("fn") for _, _, c, _ in fn.calls()]
        n += 1
        desc = "%s compares the digest with timingsafe_bcmp and with nothing else" % name
        if any(c in ("memcmp", "bcmp", "mem_cmp", "strncmp") for c in calls):
            rep.violated("R-BAN", fn, "ct-compare", desc, "uses %s" % [c for c in calls if c in ("memcmp", "bcmp", "mem_cmp", "strncmp")])
        elif "timingsafe_bcmp" not in calls:
            rep.violated("R-BAN", fn, "ct-compare", desc, "no timingsafe_bcmp call")
        else:
            # the comparison result decides: non-zero cannot reach the success return
            r_mpt.check_guard(rep, fn, "timingsafe_bcmp(...)", r_mpt.call_atom("timingsafe_bcmp", [None, None, None]), (0, 1), (0,),
                              require_dominance=False)
            rep.proved("R-BAN", fn, "ct-compare", desc, "timingsafe_bcmp")
    return n


# ------------------------------------------------------------------ run

def verify_rule(rep, u, fname="radius_pkt_verify"):
    """radius_pkt_verify accepts (returns 0) exactly when every applicable check accepted: the Request/Response Authenticator
    check always, the Message-Authenticator check whenever the attribute is present.  Evaluated over all outcomes of the
    callees (attribute found / not found, each check passes / fails)."""
    fn = u.fn(fname)
    if fn is None or not fn.has_cfg:
        raise driver.AnalysisBroken("anchor %s vanished" % fname)
    rep.functions.add(fname)
    called = {c.get("fn") for _, _, c, _ in fn.calls()}
    for cal in ("radius_pkt_attr_find", "radius_pkt_attr_msg_authenticator_chk", "radius_pkt_authenticator_chk"):
        if cal not in called:
            rep.violated("R-MPT", fn, "verify-checks", "radius_pkt_verify consults %s" % cal, "no call")
            return 1
    n = 0
    bad = undec = None
    pn = [p["n"] for p in fn.params]
    for found, ma_ok, au_ok in itertools.product((True, False), (True, False), (True, False)):
        pe = r_stride.PE(u, call_default={"radius_pkt_attr_find": 0 if found else 2, "radius_pkt_attr_msg_authenticator_chk": 0 if ma_ok else 80,
                                           "radius_pkt_authenticator_chk": 0 if au_ok else 80, "radius_pkt_attr_find_raw": 2,
                                           "radius_pkt_attr_password_decode": 0})
        bind = {pn[0]: 0x10000, pn[1]: 0x20000, pn[2]: 8, pn[3]: 0x30000}
        outs = pe.outcomes(fn, bind, 0)
        vals = {v for v, s_ in outs}
        n += 1
        what = "Message-Authenticator %s%s, authenticator check %s" % ("present" if found else "absent",
                                                                        (", its check %s" % ("passes" if ma_ok else "fails")) if found else "",
                                                                        "passes" if au_ok else "fails")
        want_ok = au_ok and (ma_ok or not found)
        if None in vals:
            undec = undec or "%s: result not computable" % what
        elif want_ok and vals != {0}:
            bad = bad or "%s: returns %s instead of 0" % (what, sorted(vals))
        elif not want_ok and 0 in vals:
            bad = bad or "%s: the packet is accepted (returns 0)" % what
    desc = "radius_pkt_verify returns 0 exactly when the authenticator check and - if the attribute is present - the Message-Authenticator check both pass"
    (rep.violated if bad else rep.undecided if undec else rep.proved)("R-MPT", fn, "verify-checks", desc, bad or undec or "%d outcome combinations" % n)
    return n


def run(rep, tier):
    us = driver.load_units(specs())
    rep.use_units(us)
    ur, ud = us["proto/radius.h"], us["proto/dns.h"]
    consts = macro_consts(CODES + ["RADIUS_ATTR_TYPE_USER_PASSWORD", "RADIUS_ATTR_TYPE_MSG_AUTHENTIC", "ENOATTR"])
    if any(v is None for v in consts.values()):
        raise driver.AnalysisBroken("radius constants not foldable: %s" % [k for k, v in consts.items() if v is None])
    npl = 0
    for lab, u in us.items():
        if "[BYTE_ORDER" in lab:
            continue
        own = ("include/" + lab, lab)
        npl += plen_rule(rep, u, [f for f in u.function_list if f.relfile() in own and f.has_cfg])
    rep.floor("constant-length pointer/object pairs", npl, 20)
    rep.floor("hash stream cases", stream_rule(rep, ur, consts), 200)
    rep.floor("sign/verify authenticator sources", sign_verify_agreement(rep, ur, consts), 14)
    sign_once_rule(rep, ur, us["src/proto/radius_client.c"])
    rep.floor("password hiding cases", hiding_rule(rep, ur), 12)
    rep.floor("builder arms", live_rule(rep, ur, consts), 5)
    rep.floor("password lengths sized", password_size_rule(rep, ur, consts), 11)
    # the client assembles the packet in an io_buf: the header fields it looks at are those of the packet, not of the buffer object
    from rules import r_tbaa
    nrc = 0
    for lab in ("src/proto/radius_client.c", "src/proto/dns_resolv.c"):
        nrc += r_tbaa.check_record_casts(rep, us[lab], [f for f in us[lab].function_list if f.relfile() == lab])
    # (expected count on a correct tree is zero: the positive example is fixtures/tbaa.c fx_reccast_bad, run by the selftest)
    rep.floor("DNS writer/reader pairs", dns_layout_rule(rep, ud), 2)
    # the header flag words are bit-field records declared once per host byte order: both declarations name the same wire bits
    rep.floor("DNS flag bit-fields (both byte orders)", r_bitlayout.check(rep, us, "proto/dns.h"), 13)
    radius_append_rule(rep, ur)
    rep.floor("DNS append size cases", dns_reported_size_rule(rep, ud), 12)
    rep.floor("OPT RR members", opt_rr_layout_rule(rep, ud), 7)
    counter_rule(rep, ud)
    rep.floor("DNS header accessors", accessor_siblings(rep, ud), 16)
    from props import c15_audit
    rep.floor("(NULL, 0) pairs reaching a copy", c15_audit.null_copy_rule(rep, ud, "include/proto/dns.h") + c15_audit.null_copy_rule(rep, ur, "include/proto/radius.h"), 5)
    rep.floor("name buffer cases", c15_audit.name_fit_rule(rep, ud), 12)
    rep.floor("attribute gathering cases", c15_audit.gather_rule(rep, ur), 2)
    rep.floor("shifted copies inside the caller's buffers", c15_audit.inplace_rule(rep, ud), 1)
    c15_audit.reply_authenticated_rule(rep, ur)
    rep.floor("codes verified as replies", c15_audit.reply_code_rule(rep, ur, macro_consts(["RADIUS_PKT_TYPE_" + n_ for n_ in c15_audit.REPLY_CODES + c15_audit.RANDOM_AUTH_CODES + c15_audit.REQUEST_CODES])), 14)
    rep.floor("packet codes with a NULL authenticator", c15_audit.reply_needs_request_authenticator_rule(rep, ur, macro_consts(["RADIUS_PKT_TYPE_" + n_ for n_ in c15_audit.REPLY_CODES + c15_audit.RANDOM_AUTH_CODES + c15_audit.REQUEST_CODES])), 14)
    ct_compare_rule(rep, ur)
    rep.floor("verify outcome combinations", verify_rule(rep, ur), 8)
    # every legal name (up to 127 labels) parses back: the walkers' anti-loop counter limits pointer jumps, not labels
    # (rule shared with C13, where it lives)
    from props import c13
    rep.floor("compression pointer loops", c13.jump_counter_rule(rep, ud), 2)
    # "lists the same attributes": the attribute walkers keep cursor and remaining size together (extent lints of memsafe)
    from props import memsafe
    for f_ in ur.function_list:
        if f_.relfile() == RADIUS_H and f_.has_cfg:
            memsafe.stale_bound_rule(rep, f_)
            memsafe.stale_length_rule(rep, f_)
            memsafe.stale_remaining_rule(rep, f_)
    nwf = nacc = 0
    for lab, u in us.items():
        if "[BYTE_ORDER" in lab:
            continue
        fns_ = [f for f in u.function_list if f.file.startswith(core.REPO + "/")]
        wf = r_endian.wire_fields(u, fns_)
        if lab in WIRE_REQUIRED:
            missing = [w for w in WIRE_REQUIRED[lab] if not any(w == f for (_r, f) in wf)]
            desc = "the RFC's multi-byte fields of %s are converted with ntoh*/hton* where they are read and written" % lab
            if missing:
                rep.violated("R-ENDIAN", "", "wire-fields:" + lab, desc, "no conversion at all for: %s" % ", ".join(missing), file="include/" + lab, unit=lab)
            else:
                rep.proved("R-ENDIAN", "", "wire-fields:" + lab, desc, "%d fields" % len(wf), file="include/" + lab, unit=lab)
        a, b = r_endian.check(rep, u, fns_, wf)
        nwf += a
        nacc += b
    rep.floor("wire fields (network byte order)", nwf, 20)
    rep.floor("wire field accesses classified", nacc, 100)
    return driver.finish(
        rep, "other",
        "DNS and RADIUS builders, structural clauses: pointer/length agreement at call sites; every builder arm can succeed; the "
        "byte streams hashed for the Request/Response Authenticator and the Message-Authenticator equal the RFC streams for all packet "
        "codes and modes (partial evaluation with symbolic byte contents); RFC 2865 password hiding equations for 1..3 blocks incl. "
        "in-place use; DNS writer/reader field layout and size agreement; counter bump; accessor siblings; constant-time compare; "
        "byte-order typestate of every wire field access (R-ENDIAN: no arithmetic on, and no host-order store into, a network-order field). "
        "NOT decided: byte identity of whole messages with an independent encoder, digest values, name round trip.",
        ["MD5/HMAC-MD5 contexts behave as init/update*/final (C07)", "the RFC streams transcribed in _ref_stream"], TRUSTED)


def selftest():
    from rules import r_tbaa as _rt
    from props import fixtures as _fx
    _u = _fx.load("tbaa.c")
    _rep = driver.Report("fixture", "quick")
    _rt.check_record_casts(_rep, _u, [f for f in _u.function_list if f.name.startswith("fx_reccast")])
    _fx.expect(_rep, ["fx_reccast_bad"], ["fx_reccast_ok"], "R-TBAA record casts")
    u = fixtures.load("endian.c")
    rep = driver.Report("fixture", "quick")
    r_endian.check(rep, u, [f for f in u.function_list if f.name.startswith("fx_")])
    fixtures.expect(rep, ["fx_inc_bad", "fx_store_bad", "fx_lt_bad", "fx_local_bad", "fx_double_bad"],
                    ["fx_inc_ok", "fx_cmp_ok", "fx_copy_ok", "fx_flip_ok", "fx_lt_tbl_ok", "fx_count_get", "fx_count_set", "fx_ttl_get"], "R-ENDIAN")
    u = fixtures.load("plen.c")
    rep = driver.Report("fixture", "quick")
    plen_rule(rep, u, [f for f in u.function_list if f.name.startswith("fx_")])
    fixtures.expect(rep, ["fx_plen_bad_member", "fx_plen_bad_local"], ["fx_plen_ok_member", "fx_plen_ok_local", "fx_plen_ok_array"], "R-PLEN")
