"""Fixture self-test: every rule with an expected violation count of zero on
the repository keeps a tiny positive example (must be flagged) and a clean
twin (must stay silent).  Run through the same code path before each check."""
import os
from rules import driver

FIXDIR = os.path.join(driver.VERIF, "fixtures")
_REG = {}


def register(prop, fn):
    _REG.setdefault(prop, []).append(fn)


def load(name):
    spec = driver.UnitSpec("fixture:" + name, "file", os.path.join(FIXDIR, name))
    return driver.load_units([spec])["fixture:" + name]


def expect(rep, want_violated, want_clean, what):
    bad = {o.fn for o in rep.obs if o.status == "violated"}
    for fn in want_violated:
        if fn not in bad:
            raise driver.AnalysisBroken("fixture self-test: %s did not flag %s" % (what, fn))
    for fn in want_clean:
        if fn in bad:
            raise driver.AnalysisBroken("fixture self-test: %s flagged clean twin %s" % (what, fn))


def selftest(prop):
    import importlib
    try:
        mod = importlib.import_module("props.%s" % prop.lower())
    except ImportError:
        return
    f = getattr(mod, "selftest", None)
    if f:
        f()
