"""C18 rules from the audit round, second batch (replays/C18-hunt/text-after-bracket-ignored, bare-ipv6-last-group-as-port).

  R-TAIL   what follows the closing bracket of "[addr]" is looked at: the position after ']' is compared with the end of
           the text (or its byte with ':') on an edge that leaves with an error
  R-WHOLE  the port delimiter is searched only after the whole (bracket-less) text failed to parse as an address - an IPv6
           address and a UNIX path contain ':' themselves
  R-NUL    the address text is refused when it contains a NUL (everything behind it would be ignored by inet_pton / the
           UNIX path copy)
"""
from rules import driver, core
from rules.core import key, const_val, walk

SA = "src/net/socket_address.c"
SEARCH = {"memchr", "mem_chr", "mem_rchr", "memrchr", "mem_chr_ptr"}


def _walk(c):
    for y, ps in walk(c):
        yield y, ps
        if y.get("k") == "lazy" and y.get("lz") is not None:
            for r in _walk(y["lz"]):
                yield r


def _searches(fn, byte):
    return [(pos, c) for pos, root, c, ps in fn.calls(SEARCH) if len(c["args"]) >= 2 and
            any(const_val(a) == byte and core.strip_casts(a).get("k") in ("int", "cast", None) for a in c["args"][1:])]


def _einval_dependent(fn, bid):
    return any(const_val(r.get("e")) not in (None, 0) and fn.dominates(bid, pos[0]) and pos[0] != bid for pos, r in fn.returns())


def bracket_tail_rule(rep, u, entries=("sa_addr_from_str", "sa_addr_port_from_str")):
    # helpers that search ']' and hand the position after it to the caller through a pointer parameter
    helpers = {}
    for fn in u.function_list:
        if fn.relfile() != SA or not fn.has_cfg:
            continue
        for pos, c in _searches(fn, 0x5d):
            ids = core.result_locals(fn, {c["fn"]})
            for p2, r2, x, _ in fn.nodes():
                if x.get("k") == "bin" and x["op"] == "=":
                    l = core.strip_casts(x["x"])
                    if l.get("k") == "un" and l["op"] == "*" and core.base_ref(l) is not None and core.base_ref(l).get("dk") == "parm":
                        y = core.strip_casts(x["y"])
                        if y.get("k") == "bin" and y["op"] == "+" and const_val(y["y"]) == 1 and any(z.get("k") == "ref" and z.get("id") in ids for z, _ in walk(y["x"])):
                            pidx = [i for i, p in enumerate(fn.params) if p["n"] == core.base_ref(l)["n"]]
                            if pidx:
                                helpers[fn.name] = pidx[0]
    n = 0
    for name in entries:
        fn = u.fn(name)
        if fn is None or not fn.has_cfg:
            raise driver.AnalysisBroken("anchor %s vanished" % name)
        rep.functions.add(name)
        n += 1
        tails = set()
        after = None
        for pos, root, c, ps in fn.calls(set(helpers)):
            a = core.strip_casts(c["args"][helpers[c["fn"]]])
            if a.get("k") == "un" and a["op"] == "&" and core.strip_casts(a["e"]).get("k") == "ref":
                tails.add(core.strip_casts(a["e"])["n"])
                after = pos
        direct = _searches(fn, 0x5d)
        if direct and not tails:
            ids = core.result_locals(fn, {direct[0][1]["fn"]})
            for p2, r2, x, _ in fn.nodes():
                if x.get("k") == "bin" and x["op"] == "=" and core.strip_casts(x["x"]).get("k") == "ref":
                    y = core.strip_casts(x["y"])
                    if y.get("k") == "bin" and y["op"] == "+" and const_val(y["y"]) == 1 and any(z.get("k") == "ref" and z.get("id") in ids for z, _ in walk(y["x"])):
                        tails.add(core.strip_casts(x["x"])["n"])
            after = direct[0][0]
        ok = False
        if tails and after is not None:
            for bid in fn.reachable_blocks():
                cnd = fn.blocks[bid].cond
                if cnd is None or not _einval_dependent(fn, bid):
                    continue
                for y, _ in _walk(cnd):
                    if y.get("k") == "bin" and y["op"] in ("==", "!="):
                        sides = (core.strip_casts(y["x"]), core.strip_casts(y["y"]))
                        if any(s_.get("k") == "ref" and s_["n"] in tails for s_ in sides) or \
                                any(s_.get("k") == "un" and s_["op"] == "*" and core.base_ref(s_) is not None and core.base_ref(s_)["n"] in tails for s_ in sides):
                            ok = True
        desc = "%s: the text after the closing bracket is empty%s" % (name, " or the ':' of the port" if "port" in name else "")
        if not direct and not tails:
            rep.undecided("R-TAIL", fn, "bracket-tail", desc, "no search for ']' found in the function or its helpers")
        elif ok:
            rep.proved("R-TAIL", fn, "bracket-tail", desc, "position after ']' (%s) tested on an error edge" % ", ".join(sorted(tails)))
        else:
            rep.violated("R-TAIL", fn, "bracket-tail", desc, "the position after ']' is never compared with the end of the text: \"[::1]garbage\", \"[::1]x:80\", "
                         "\"1.2.3.4]]]:80\" and \"[[[::1:80\" are accepted")
    return n


def whole_first_rule(rep, u, fname="sa_addr_port_from_str"):
    from props import c11
    g = c11.call_graph([u])
    fn = u.fn(fname)
    if fn is None or not fn.has_cfg:
        raise driver.AnalysisBroken("anchor %s vanished" % fname)
    rep.functions.add(fname)
    parsers = {f for f in g if "inet_pton" in c11.reach(g, f)}
    colon = _searches(fn, 0x3a)
    n = 0
    for pos, c in colon:
        n += 1
        ok = False
        for bid in fn.reachable_blocks():
            cnd = fn.blocks[bid].cond
            if cnd is None or not fn.dominates(bid, pos[0]) or bid == pos[0]:
                continue
            if any(y.get("k") == "call" and y.get("fn") in parsers for y, _ in _walk(cnd)):
                ok = True
            ids = core.result_locals(fn, parsers)
            if any(y.get("k") == "ref" and y.get("id") in ids for y, _ in _walk(cnd)):
                ok = True
        desc = "%s: the last ':' is taken for the port delimiter only after the whole text failed to parse as an address" % fname
        (rep.proved if ok else rep.violated)("R-WHOLE", fn, "whole-text-first", desc, "" if ok else
                                             "the ':' split comes first: the text sa_addr_to_str writes for fe80::1:80 parses as [fe80::1]:80, "
                                             "2001:db8:0:1:1:2:3:4 is refused, and the UNIX path /run/app:1/sock:ctl is cut at its last ':'", c.get("ln"))
    if not colon:
        rep.undecided("R-WHOLE", fn, "whole-text-first", "%s: port delimiter search" % fname, "no search for ':' found")
    return max(n, 1)


def nul_rule(rep, u):
    n = 0
    for fn in u.function_list:
        if fn.relfile() != SA or not fn.has_cfg:
            continue
        pt = [pos for pos, root, c, ps in fn.calls({"inet_pton"})]
        if not pt:
            continue
        copies = [(pos, c) for pos, root, c, ps in fn.calls({"memcpy"}) if fn.pos_dominates(pos, pt[0])]
        if not copies:
            continue
        n += 1
        rep.functions.add(fn.name)
        pos, c = copies[0]
        ok = False
        for bid in fn.reachable_blocks():
            cnd = fn.blocks[bid].cond
            if cnd is None or not fn.dominates(bid, pos[0]) or bid == pos[0] or not _einval_dependent(fn, bid):
                continue
            for y, _ in _walk(cnd):
                if y.get("k") == "call" and y.get("fn") in SEARCH and any(const_val(a) == 0 and core.strip_casts(a).get("k") != "ref" for a in y["args"][1:2]):
                    ok = True
        desc = "%s: an address text with an embedded NUL is refused before it is copied for inet_pton" % fn.name
        (rep.proved if ok else rep.violated)("R-NUL", fn, "nul-refused", desc, "" if ok else
                                             "no NUL test: \"1.2.3.4\\0junk\" (12 bytes) parses as 1.2.3.4", c.get("ln"))
    return n


def port_capacity_rule(rep, u, fname="sa_addr_port_to_str"):
    """the capacity demanded for ":port" is what this port needs (1 + digits + 1), not the worst case of five digits:
    "127.0.0.1:80" fits a 13-byte buffer"""
    fn = u.fn(fname)
    if fn is None or not fn.has_cfg:
        raise driver.AnalysisBroken("anchor %s vanished" % fname)
    rep.functions.add(fname)
    n = 0
    for bid in fn.reachable_blocks():
        cnd = fn.blocks[bid].cond
        if cnd is None:
            continue
        for y, _ in _walk(cnd):
            if y.get("k") == "bin" and y["op"] in ("<", ">", "<=", ">="):
                sides = (core.strip_casts(y["x"]), core.strip_casts(y["y"]))
                if not any(core.is_ref(s_, name="buf_size") for s_ in sides):
                    continue
                other = sides[1] if core.is_ref(sides[0], name="buf_size") else sides[0]
                consts = [const_val(z) for z, _ in walk(other) if const_val(z) is not None and z.get("k") == "int"]
                locs = {z["n"] for z, _ in walk(other) if z.get("k") == "ref"}
                if not consts or not any(c_ >= 3 for c_ in consts) and len(locs) < 2:
                    continue
                n += 1
                worst = any(c_ >= 6 for c_ in consts) and len(locs) <= 1
                desc = "%s: the space test for the port suffix depends on the port's digit count" % fname
                (rep.violated if worst else rep.proved)("R-EXACT", fn, "port-capacity", desc, "compares with %s: any port below 10000 is refused for buffers the text fits in "
                                                        "(127.0.0.1:80 into 13..15 bytes is ENOSPC)" % key(other)[:50] if worst else key(other)[:60], y.get("ln"))
    return n


def network_family_rule(rep, un, fname="str_net_to_ss"):
    """"address/prefix" names a network only for AF_INET / AF_INET6: the family switch refuses everything else (the address
    parser also accepts UNIX paths: "./24", ".0.0.0/8")"""
    fn = un.fn(fname)
    if fn is None or not fn.has_cfg:
        raise driver.AnalysisBroken("anchor %s vanished" % fname)
    rep.functions.add(fname)
    n = 0
    for bid in fn.reachable_blocks():
        b = fn.blocks[bid]
        if not (b.term and b.term["k"] == "SwitchStmt" and b.cond is not None and "ss_family" in key(b.cond)):
            continue
        n += 1
        dflt = [s_ for s_ in b.rsucc() if "case" not in (fn.blocks[s_].label or {})]
        ok = False
        for s_ in dflt:
            blk = fn.blocks[s_]
            # the no-label successor is a default arm that returns an error (not the statement after the switch)
            if (blk.label or {}).get("default") or (blk.label is not None and "case" not in blk.label and blk.label):
                ok = any(e.get("k") == "ret" and const_val(e.get("e")) not in (None, 0) for e in blk.elems)
        desc = "%s: a family other than AF_INET / AF_INET6 is refused" % fname
        msg = "" if ok else "no failing default arm: '.0.0.0/8' and './24' return 0 with an AF_UNIX address and the prefix length"
        (rep.proved if ok else rep.violated)("R-CFGX", fn, "network-family-default", desc, msg, b.elems[-1].get("ln") if b.elems else None)
    return n


def socklen_rule(rep, u):
    """inet_ntop() takes a socklen_t (32 bit): a size_t capacity is clamped before it is narrowed (0x100000008 would be 8)"""
    n = 0
    for fn in u.function_list:
        if fn.relfile() != SA or not fn.has_cfg:
            continue
        for pos, root, c, ps in fn.calls({"inet_ntop"}):
            n += 1
            rep.functions.add(fn.name)
            a = c["args"][3]
            clamped = any(const_val(z) is not None and 16 <= const_val(z) <= 256 and z.get("k") in ("int", "sizeof") for z, _ in _walk(a))
            desc = "%s: the capacity handed to inet_ntop is clamped before the conversion to socklen_t" % fn.name
            (rep.proved if clamped else rep.violated)("R-NARROW", fn, "socklen-clamped", desc, key(a)[:60] if clamped else
                                                      "the size_t capacity is passed as it is: buf_size = 0x100000008 is seen as 8 (ENOSPC for a 4 GiB buffer)", c.get("ln"))
    return n


# ------------------------------------------------------------------ third pass (replays/C18-hunt3)

def unix_no_split_rule(rep, u, fname="sa_addr_port_from_str"):
    """text that starts like a UNIX path ('/' or '.') and failed as a whole (too long) is not cut at its last ':' and
    accepted as a shorter path with a port: the split is behind a test of the first byte"""
    from rules import r_mpt
    fn = u.fn(fname)
    if fn is None or not fn.has_cfg:
        raise driver.AnalysisBroken("anchor %s vanished" % fname)
    rep.functions.add(fname)
    splits = [(pos, c) for pos, root, c, ps in fn.calls() if (c.get("fn") or "").startswith(("mem_rchr", "memrchr", "strrchr")) and any(const_val(a) == 0x3a for a in c["args"])]
    if not splits:
        raise driver.AnalysisBroken("%s: the ':' split not found" % fname)
    n = 0
    for pos, c in splits:
        for ch, nm in ((0x2f, "'/'"), (0x2e, "'.'")):
            n += 1
            ok = False
            for bid in fn.reachable_blocks():
                cnd = fn.blocks[bid].cond
                if cnd is None or not fn.dominates(bid, pos[0]) or bid == pos[0]:
                    continue
                atoms = [y for y, _ in _walk(cnd) if (y.get("k") == "un" and y["op"] == "*") or y.get("k") == "sub"]
                if not atoms or not any(const_val(y) == ch for y, _ in _walk(cnd)):
                    continue
                try:
                    v = r_mpt.eval_expr(cnd, {id(a): ch for a in atoms})
                except r_mpt.Unknown:
                    continue
                s_ = fn.blocks[bid].succ[0] if v else fn.blocks[bid].succ[1]
                if s_ is None or pos[0] not in fn.reach_from([s_], avoid=[bid]):
                    ok = True
            desc = "%s: text whose first byte is %s never reaches the ':' split" % (fname, nm)
            (rep.proved if ok else rep.violated)("R-SPELL", fn, "no-split-of-unix-path:%s" % nm, desc, "" if ok else
                                                 "'/' + 106 * 'a' + ':0' fails as a whole (path too long), is cut at the ':' and accepted as a 107 character path with port 0", c.get("ln"))
    return n


def net_blank_rule(rep, u, fname="str_net_to_ss"):
    """blanks inside a network text are no spelling: a blank right before '/' is refused; blanks after the text are not handed
    to the strict number parser (so that ' 10.0.0.0/8' and '10.0.0.0/8 ' get the same answer).  Partial evaluation with the
    delimiter search, the number parser and the address parser represented by their results."""
    from rules import r_stride
    fn = u.fn(fname)
    if fn is None or not fn.has_cfg:
        raise driver.AnalysisBroken("anchor %s vanished" % fname)
    rep.functions.add(fname)
    numcalls = [c for _p, _r, c, _ps in fn.calls() if (c.get("fn") or "").startswith(("str2u", "ustr2u"))]
    srch = [c for _p, _r, c, _ps in fn.calls() if (c.get("fn") or "").startswith(("mem_rchr", "mem_chr", "memchr", "memrchr"))]
    addrp = [c for _p, _r, c, _ps in fn.calls({"sa_addr_from_str", "sa_addr_port_from_str"})]
    if len(numcalls) != 1 or len(srch) != 1 or len(addrp) != 1:
        raise driver.AnalysisBroken("%s: expected one number parser, one delimiter search and one address parser" % fname)
    BUF, ADDR, OUT = 0x1000, 0x2000, 0x3000
    n = 0
    for txt, want_ok, want_numlen in ((b"10.0.0.0/8", True, 1), (b"10.0.0.0 /8", False, None), (b"10.0.0.0\t/8", False, None), (b"10.0.0.0/8 ", True, 1), (b"10.0.0.0/24 \t", True, 2)):
        pe = r_stride.PE(u)
        pe.memory = {BUF + i: c for i, c in enumerate(txt)}
        slash = BUF + txt.index(b"/")
        bind = {"buf": BUF, "buf_size": len(txt), "addr": ADDR, "preflen_ret": OUT, "addr->ss_family": 2, key(srch[0]): slash, key(addrp[0]): 0, key(numcalls[0]): 0}
        pe.out_default = {numcalls[0]["fn"]: {len(numcalls[0]["args"]) - 1: 8}}
        ev, ret = pe.trace(fn, bind)
        n += 1
        inst = "net-text[%r]" % txt.decode()
        desc = "%s(%r) is %s" % (fname, txt.decode(), "accepted, the number parser gets the digits only" if want_ok else "refused")
        if isinstance(ret, str):
            rep.undecided("R-SPELL", fn, inst, desc, ret)
            continue
        if not want_ok:
            (rep.proved if ret != 0 else rep.violated)("R-SPELL", fn, inst, desc, "status %s" % ret if ret != 0 else
                                                       "accepted: the address part is trimmed by the address parser, so blanks between the address and '/' pass")
            continue
        numlen = None
        for e, b in ev:
            for y, _ in walk(e):
                if y is numcalls[0]:
                    try:
                        vs = pe.evals(y["args"][1], b, 0)
                        numlen = sorted(v for v, s_ in vs)[0] if vs else None
                    except Exception:
                        numlen = None
        if ret != 0:
            rep.violated("R-SPELL", fn, inst, desc, "status %s" % ret)
        elif numlen != want_numlen:
            rep.violated("R-SPELL", fn, inst, desc, "the strict number parser is given %s byte(s) (the trailing blanks included): the text is refused although the same blanks in front are accepted" % numlen)
        else:
            rep.proved("R-SPELL", fn, inst, desc, "number text of %s byte(s)" % numlen)
    return n


def _harmless_prefilter(fn, b, cnd, skipping, body):
    """a skip that cannot lose a spelling: IPv6 text always holds ':', IPv4 text always holds '.' and never ':'.
    (family constant compared in the same short-circuit chain, byte searched for, which answer skips)"""
    srch = [y for y, _ in _walk(cnd) if y.get("k") == "call" and y.get("fn") in ("memchr", "strchr", "mem_chr", "mem_chr_ptr")]
    if len(srch) != 1:
        return False
    byte = [const_val(a_) for a_ in srch[0].get("args", []) if const_val(a_) is not None and 0 < const_val(a_) < 256]
    cmpn = [y for y, _ in _walk(cnd) if y.get("k") == "bin" and y["op"] in ("==", "!=") and any(srch[0] is z for z, _ in _walk(y))]
    if not byte or len(cmpn) != 1:
        return False
    # which answer of the search skips: the true edge is succ[0]
    found_when_true = cmpn[0]["op"] == "!="
    skip_on_true = fn.blocks[b].succ[0] in skipping
    skips_when_found = (found_when_true == skip_on_true)
    fams = set()
    for q in body:
        cq = fn.blocks[q].cond
        if cq is not None and (q == b or fn.dominates(q, b)):
            for y, _ in _walk(cq):
                if y.get("k") == "bin" and y["op"] == "==":
                    for s_ in ("x", "y"):
                        v = const_val(core.strip_casts(y[s_]))
                        if v in (2, 10):
                            fams.add(v)
    if len(fams) != 1:
        return False
    fam = fams.pop()
    return (fam, byte[0], skips_when_found) in ((10, ord(":"), False), (2, ord("."), False), (2, ord(":"), True))


def family_offered_rule(rep, u, parser="inet_pton", setup="sa_init"):
    """R-ORACLE family-offered: "accepts the documented spellings" is decided by the system's parser - the library's own part is
    to offer the text to it for every family of its list.  In each function that calls inet_pton inside a loop over the
    families, every branch between the loop's head and that call whose other edge skips the call (for this family) hangs on the
    family set-up call alone: a test of the text itself there (a '.' or ':' search, a length class) withholds spellings that
    the parser accepts - `::ffff:1.2.3.4` contains dots, `1::` contains no second group."""
    n = 0
    for fn in u.function_list:
        if not fn.has_cfg or fn.relfile() != "src/net/socket_address.c":
            continue
        for pos, root, c, ps in fn.calls({parser}):
            pb = pos[0]
            # the loop head: the closest dominating block with a condition that the call's block can come back to
            heads = [b for b in fn.reachable_blocks() if b != pb and fn.blocks[b].cond is not None and fn.dominates(b, pb)
                     and b in fn.reach_from(list(fn.blocks[pb].succ))
                     and any(fn.dominates(b, q) for q in fn.reachable_blocks() if b in fn.blocks[q].succ)]     # target of a back edge
            if not heads:
                continue
            head = max(heads, key=lambda b: len(fn.dom()[b]))
            n += 1
            rep.functions.add(fn.name)
            body = fn.reach_from([s for s in fn.blocks[head].succ if s is not None and pb in fn.reach_from([s], avoid=[head])], avoid=[head])
            bad = None
            for b in sorted(body):
                cnd = fn.blocks[b].cond
                if cnd is None or b == pb or pb not in fn.reach_from([b], avoid=[head]):
                    continue
                skipping = [s for s in fn.blocks[b].succ if s is not None and pb not in fn.reach_from([s], avoid=[head])]
                if not skipping:
                    continue
                names = {y.get("fn") for y, _ in _walk(cnd) if y.get("k") == "call"}
                if setup in names and not (names - {setup}):
                    continue
                if _harmless_prefilter(fn, b, cnd, skipping, body):
                    continue
                bad = bad or ("the branch at line %s (%s) can skip the %s() call for a family: the text is not offered to the system's parser, "
                              "spellings it accepts for that family are refused" % (cnd.get("ln"), ", ".join(sorted(x for x in names if x)) or "no set-up call in the condition", parser))
            desc = ("%s: between the head of the family loop and the %s() call only the family set-up (%s) can skip the call - the text "
                    "itself is not pre-classified" % (fn.name, parser, setup))
            (rep.violated if bad else rep.proved)("R-ORACLE", fn, "family-offered", desc, bad or "", c.get("ln"))
    return n
