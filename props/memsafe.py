"""Shared memory-safety machinery for C09, C12, C13, C15, C17, C20:
runs the relational abstract interpreter (rules/absint.py) over a table of functions,
in parallel and with a per-function result cache, and turns its verdicts into obligations.

Alarm policy: an access whose address is provably inside a buffer is *proved*; an access for which the
analysis has a bound that is too weak by a small constant is an *alarm* (reported as a violation: each
alarm on the pinned tree was triaged by hand - see known_findings.json / fixed commits / DESIGN.md);
everything else is *undecided* and listed in the evidence.  Loops without a proved progress measure
are undecided as well."""
import concurrent.futures
import hashlib
import json
import os
import time

from rules import driver, core, absint, r_outdef
from rules.core import walk, key, const_val

ENGINE_FILES = ["rules/absint.py", "rules/lp.py", "rules/core.py", "props/memsafe.py"]

# (pointer parameter, size parameter, element size)  confirmed by reading each function
EXTRA_PAIRS = {
    # al/os.h replacements (analysed in the configuration without the libc functions, see common.os_portable_unit)
    "timingsafe_bcmp": [("b1", "len", 1), ("b2", "len", 1)],
    "strlcpy": [("dst", "size", 1)],
    # dns.h
    "DomainNameZonesReverce": [("src", "name_len", 1)],     # dst capacity is name_len + 2 by contract (not a parameter)
    "SequenceOfLabelsToDomainName": [("buf", "buf_size", 1), ("name", "name_buf_size", 1)],
    "dns_hdr_create": [("hdr", "msgbuf_size", 1)],
    "dns_msg_name2sequence_of_labels": [("hdr", "msgbuf_size", 1), ("name", "name_len", 1)],
    "dns_msg_sequence_of_labels_get_name_len": [("hdr", "msg_size", 1)],
    "dns_msg_sequence_of_labels2name": [("hdr", "msg_size", 1), ("name", "name_buf_size", 1)],
    "dns_msg_question_add": [("hdr", "msgbuf_size", 1), ("name", "name_len", 1)],
    "dns_msg_question_get_data": [("hdr", "msg_size", 1)],
    "dns_msg_question_get_size": [("hdr", "msg_size", 1)],
    "dns_msg_rr_add": [("hdr", "msgbuf_size", 1), ("name", "name_len", 1), ("data", "data_size", 1)],
    "dns_msg_optrr_add": [("hdr", "msgbuf_size", 1), ("data", "data_size", 1)],
    "dns_msg_rr_get_data": [("hdr", "msg_size", 1)],
    "dns_msg_rr_get_size": [("hdr", "msg_size", 1)],
    "dns_msg_rr_find": [("hdr", "msg_size", 1), ("name", "name_len", 1)],
    "dns_msg_info_get": [("hdr", "msgbuf_size", 1)],
    "dns_msg_size_get": [("hdr", "msgbuf_size", 1)],
    "dns_msg_validate": [("hdr", "msgbuf_size", 1)],
    # radius.h builders
    "radius_pkt_attr_get_from_offset": [("pkt", "pkt_size", 1)],    # pkt_size is the local holding the (validated) header length
    "radius_pkt_attr_alloc_raw": [("pkt", "pkt_buf_size", 1)],
    "radius_pkt_attr_add_raw": [("pkt", "pkt_buf_size", 1)],
    "radius_pkt_attr_add": [("pkt", "pkt_buf_size", 1)],
    "radius_pkt_init": [("pkt", "pkt_buf_size", 1)],
    "radius_pkt_reply_init": [("pkt", "pkt_buf_size", 1)],
    "radius_pkt_sign": [("pkt", "pkt_buf_size", 1)],
    # http.c
    "http_req_sec_chk": [("http_hdr", "hdr_size", 1)],
    "http_parse_req_line": [("http_hdr", "hdr_size", 1)],
    "http_parse_resp_line": [("http_hdr", "hdr_size", 1)],
    "http_hdr_val_get_ex": [("http_hdr", "hdr_size", 1), ("val_name", "val_name_size", 1)],
    "http_hdr_val_get": [("http_hdr", "hdr_size", 1), ("val_name", "val_name_size", 1)],
    "http_hdr_val_get_count": [("http_hdr", "hdr_size", 1), ("val_name", "val_name_size", 1)],
    "http_hdr_val_remove": [("http_hdr", "hdr_size", 1), ("hdr_lcase", "hdr_size", 1), ("val_name", "val_name_size", 1)],
    # xml.c
    "xml_decode": [("encoded", "encoded_size", 1), ("xml", "xml_buf_size", 1)],
    "xml_encode": [("xml", "xml_size", 1), ("encoded", "encoded_buf_size", 1)],
    "xml_get_val_arr": [("xml_data", "xml_data_size", 1), ("tag_arr", "tag_arr_count", 8), ("tag_arr_cnt", "tag_arr_count", 8)],
    "xml_get_val_ns_arr": [("xml_data", "xml_data_size", 1), ("tag_arr", "tag_arr_count", 8), ("tag_arr_cnt", "tag_arr_count", 8)],
    # mem_utils.h
    "mem_chr": [("buf", "size", 1)], "mem_chr_off": [("buf", "size", 1)], "mem_chr_ptr": [("buf", "size", 1)],
    "mem_rchr": [("buf", "size", 1)], "mem_rchr_off": [("buf", "size", 1)], "mem_rchr_ptr": [("buf", "size", 1)],
    "mem_to_lower": [("dst", "size", 1), ("src", "size", 1)], "mem_to_upper": [("dst", "size", 1), ("src", "size", 1)],
    "mem_cmp": [("buf1", "size", 1), ("buf2", "size", 1)], "mem_cmpi": [("buf1", "size", 1), ("buf2", "size", 1)],
    "mem_replace_arr": [("src", "src_size", 1), ("dst", "dst_size", 1), ("tmp_arr", "repl_count", 8), ("src_repl", "repl_count", 8),
                        ("src_repl_counts", "repl_count", 8), ("dst_repl", "repl_count", 8), ("dst_repl_counts", "repl_count", 8)],
    # mpeg2ts / rtp
    "mpeg2_ts_pkt_is_valid": [("ts_hdr", "mpeg2_ts_pkt_size", 1)],
    # ecdsa byte API (C09): sizes given by the caller
}



def engine_version():
    h = hashlib.sha256()
    for f in ENGINE_FILES:
        with open(os.path.join(driver.VERIF, f), "rb") as fh:
            h.update(fh.read())
    return h.hexdigest()[:16]


# sizes that are locals of the function (see absint: the local is the size symbol)
LOCAL_SIZES = {"radius_pkt_attr_get_from_offset": ("pkt_size",)}


def pairs_for(fn):
    ps = absint.guess_pairs(fn)
    extra = EXTRA_PAIRS.get(fn.name)
    if extra:
        names = {p["n"] for p in fn.params}
        have = {p[0] for p in extra}
        ps = [p for p in ps if p[0] not in have] + [p for p in extra if p[0] in names and (p[1] in names or p[1] in LOCAL_SIZES.get(fn.name, ()))]
    return ps


def callee_pairs_for(fn):
    """(pointer argument, byte-length argument) pairs of the repository functions fn calls: the region handed to the
    callee must lie inside the caller's buffer (the callee is analysed under exactly that assumption)"""
    u = fn.unit
    out = {}
    for pos, root, c, ps in fn.calls():
        name = c.get("fn")
        if not name or name in out or name in absint.COPY_CALLS:
            continue
        cal = u.fn(name)
        if cal is None or not cal.params:
            continue
        idx = {p["n"]: i for i, p in enumerate(cal.params)}
        prs = []
        for pn, sn, usz in pairs_for(cal):
            if usz != 1 or pn not in idx or sn not in idx:
                continue
            pt = u.type(cal.params[idx[pn]]["t"])
            to = u.type(pt["to"]) if pt["k"] == "ptr" else {}
            prs.append((idx[pn], idx[sn], "r" if to.get("const") else "w"))
        if prs:
            out[name] = prs
    return out


def analyse_one(args):
    facts_path, label, fname, budget = args
    t0 = time.time()
    try:
        u = core.Unit(facts_path, label)
        fn = u.fn(fname)
        an = absint.Analysis(fn, pairs=pairs_for(fn), callee_pairs=callee_pairs_for(fn))
        an.budget = budget
        if fname in absint.RET_LE_ARG:
            an.ret_le = fn.params[absint.RET_LE_ARG[fname]]["n"]
        an.run()
        obs = []
        for o in an.obligations:
            obs.append({"ln": o["ln"], "kind": o["kind"], "status": o["status"], "buf": o["buf"], "what": o["what"], "detail": o["detail"]})
        prog = [{"ln": p["ln"], "ok": p["ok"], "var": p["var"], "cands": p["cands"]} for p in an.progress]
        return {"fn": fname, "obs": obs, "progress": prog, "untracked": an.untracked, "buffers": [b[2] for b in an.buffers],
                "wall": round(time.time() - t0, 2), "diverged": getattr(an, "diverged", False), "error": None}
    except Exception as ex:      # analysis failure is reported, never swallowed
        import traceback
        return {"fn": fname, "obs": [], "progress": [], "untracked": 0, "buffers": [], "wall": round(time.time() - t0, 2),
                "diverged": False, "error": "%s: %s" % (type(ex).__name__, traceback.format_exc()[-400:])}


def run_many(jobs, budget=None):
    """jobs: list of (unit, [function names]); analyses everything in one process pool with a per-function
    result cache keyed by (facts file content, function, engine version, budget class).
    returns dict (unit label, name) -> result"""
    ver = engine_version()
    cdir = os.path.join(driver.CACHE, "absint")
    os.makedirs(cdir, exist_ok=True)
    todo = []
    res = {}
    for unit, names in jobs:
        fh = hashlib.sha256(open(unit.path, "rb").read()).hexdigest()[:20]
        for n in names:
            ck = hashlib.sha256(("%s|%s|%s" % (fh, n, ver)).encode()).hexdigest()[:24]
            cp = os.path.join(cdir, ck + ".json")
            if os.path.exists(cp):
                try:
                    r = json.load(open(cp))
                    # a result cut short by a smaller budget is not reused for a larger one
                    if not r.get("diverged") or (budget is not None and r.get("budget") is not None and r["budget"] >= budget):
                        res[(unit.label, n)] = r
                        continue
                except ValueError:
                    pass
            todo.append((unit, n, cp))
    if todo:
        with concurrent.futures.ProcessPoolExecutor(max_workers=driver.JOBS) as ex:
            futs = {ex.submit(analyse_one, (unit.path, unit.label, n, budget)): (unit, n, cp) for unit, n, cp in todo}
            for f in concurrent.futures.as_completed(futs):
                unit, n, cp = futs[f]
                r = f.result()
                r["budget"] = budget
                res[(unit.label, n)] = r
                tmp = cp + ".%d.tmp" % os.getpid()
                with open(tmp, "w") as fh_:
                    json.dump(r, fh_)
                os.replace(tmp, cp)
    return res


def run_functions(unit, names, budget=None):
    r = run_many([(unit, names)], budget)
    return {n: r[(unit.label, n)] for n in names}


def report(rep, unit, names, results, rule="R-CURSOR", must_have=()):
    """turn analysis results into obligations of the property report"""
    n_obl = 0
    for n in names:
        fn = unit.fn(n)
        r = results[n]
        rep.functions.add(n)
        if r["error"]:
            raise driver.AnalysisBroken("abstract interpretation of %s failed: %s" % (n, r["error"]))
        if r.get("diverged"):
            rep.undecided(rule, fn, "analysis-budget", "abstract interpretation of %s reaches a fixpoint within the time budget" % n,
                          "stopped after %ss (quick tier budget); the thorough tier runs it to completion" % r["wall"])
            continue
        per = {}
        for o in r["obs"]:
            n_obl += 1
            base = "%s:%s" % ("write" if o["kind"] == "w" else "read", o["what"])
            per[base] = per.get(base, 0) + 1
            inst = base if per[base] == 1 else "%s#%d" % (base, per[base])
            desc = "%s of %s stays inside %s" % ("write" if o["kind"] == "w" else "read", o["what"], o["buf"])
            if o["kind"] == "ret":
                inst = "contract:" + o["what"]
                desc = "helper contract used by its callers: %s" % o["detail"]
            if o["status"] == "proved":
                rep.proved(rule, fn, inst, desc, o["detail"], o["ln"])
            elif o["status"] == "alarm":
                rep.violated(rule, fn, inst, desc, o["detail"], o["ln"])
            else:
                rep.undecided(rule, fn, inst, desc, o["detail"], o["ln"])
        for i, p in enumerate(r["progress"]):
            inst = "loop#%d" % (i + 1)
            desc = "loop at line %s makes progress on every iteration" % p["ln"]
            if p["ok"]:
                rep.proved("R-PROGRESS", fn, inst, desc, "'%s' moves strictly on every back edge" % p["var"], p["ln"])
            else:
                rep.undecided("R-PROGRESS", fn, inst, desc, "no strictly monotone condition variable among %s" % p["cands"], p["ln"])
    return n_obl


def functions_of(unit, relfile, exclude=()):
    return [fn.name for fn in unit.function_list if fn.relfile() == relfile and fn.name not in exclude and fn.has_cfg]


# ------------------------------------------------------------------ R-SC: bound after dereference in a short-circuit

def short_circuit_rule(rep, fn):
    """In `A && B` the operand A dereferences a cursor and the later operand B compares that same cursor with
    its limit: C evaluates A first, so the last iteration reads one element past the bound.  Exact."""
    n = 0
    for bid in fn.reachable_blocks():
        blk = fn.blocks[bid]
        if not blk.term or blk.term["k"] != "&&" or blk.cond is None:
            continue
        # pointers dereferenced in this operand
        derefs = {}
        for x, ps in walk(blk.cond):
            p = None
            if x.get("k") == "un" and x["op"] == "*":
                p = core.base_ref(x["e"])
            elif x.get("k") == "sub":
                p = core.base_ref(x["b"])
            if p is not None and fn.unit.type(p["t"])["k"] == "ptr":
                derefs[p["id"]] = (p["n"], x)
        if not derefs:
            continue
        # the operand evaluated next (true edge) within the same && chain
        nxt = blk.succ[0]
        hops = 0
        while nxt is not None and hops < 4:
            nb = fn.blocks[nxt]
            c = nb.cond
            if c is None:
                break
            c0 = core.strip_casts(c)
            if c0.get("k") == "bin" and c0["op"] in ("<", ">", "<=", ">=", "!="):
                for side in (c0["x"], c0["y"]):
                    s0 = core.strip_casts(side)
                    if s0.get("k") == "ref" and s0["id"] in derefs and fn.unit.type(core.strip_casts(
                            c0["y"] if side is c0["x"] else c0["x"])["t"])["k"] == "ptr":
                        nm, node = derefs[s0["id"]]
                        n += 1
                        rep.violated("R-SC", fn, "deref-before-bound:%s" % nm,
                                     "a cursor is compared with its limit before it is dereferenced in the same condition",
                                     "'%s' is dereferenced (line %s) before '%s' is evaluated: reads one element past the limit" % (
                                         nm, node.get("ln"), key(c0)), node.get("ln"))
            if nb.term and nb.term["k"] == "&&":
                nxt = nb.succ[0]
                hops += 1
            else:
                break
    return n


# ------------------------------------------------------------------ R-STALE: cursor advanced, bound not

def stale_bound_rule(rep, fn):
    """A buffer parameter P with its size parameter S: if P itself is advanced inside a loop (P += n, P++) while S is never
    reduced, a guard of that loop that tests S must account for what was already consumed - through P itself or through an
    accumulator that grows in the loop.  A guard `S < n` with the per-iteration length alone checks every piece against the
    full original size: several pieces that each fit overflow the buffer together."""
    n = 0
    loops = fn.loops()
    if not loops:
        return 0
    inloop = set().union(*[set(b) for b in loops.values()])
    for (pn, sn, usz) in pairs_for(fn):
        adv, szw, acc = [], [], set()
        adv_pos = []
        for pos, root, x, ps in fn.nodes():
            t = None
            grows = False
            if x.get("k") == "un" and ("++" in x["op"] or "--" in x["op"]):
                t = core.strip_casts(x["e"])
                grows = True
            elif x.get("k") == "bin" and x["op"].endswith("=") and x["op"] not in ("==", "!=", "<=", ">="):
                t = core.strip_casts(x["x"])
                grows = x["op"] in ("+=", "-=")
            if t is not None and t.get("k") == "ref":
                if t["n"] == pn and pos[0] in inloop and grows:
                    adv.append(x)
                    adv_pos.append((pos, x))
                if t["n"] == sn:
                    szw.append(pos)
                if grows and pos[0] in inloop:
                    acc.add(t["n"])
        # a write through the advanced cursor whose extent is computed from the size alone
        if adv and not szw:
            for pos, root, c, ps in fn.calls({"memset", "memcpy", "memmove", "bzero", "explicit_bzero"}):
                a0 = core.strip_casts(c["args"][0])
                if not core.is_ref(a0, name=pn):
                    continue
                names = {r["n"] for r in core.refs(c["args"][-1])}
                # the cursor advanced in a loop that is left before this write (or at a position that dominates it)
                moved_before = [x for pp, x in adv_pos if fn.pos_dominates(pp, pos) or
                                (pos[0] not in inloop and pos[0] in fn.reach_from([pp[0]]))]
                if sn in names and pn not in names and moved_before:
                    n += 1
                    rep.violated("R-STALE", fn, "stale-extent:%s(%s)" % (c["fn"], pn),
                                 "%s: the extent of %s through the advanced cursor '%s' accounts for how far it advanced" % (fn.name, c["fn"], pn),
                                 "'%s' was advanced (line %s) but the length %s is computed from '%s' without it: the region does not end at the end "
                                 "of the buffer" % (pn, moved_before[0].get("ln"), key(c["args"][-1])[:50], sn), c.get("ln"))
        if not adv or szw:
            continue
        for bid in sorted(inloop):
            c = fn.blocks[bid].cond
            if c is None:
                continue
            names = {r["n"] for r in core.refs(c)}
            if sn not in names or pn in names:
                continue
            n += 1
            inst = "stale-bound:%s/%s" % (pn, sn)
            desc = "%s: '%s' advances in the loop; the guard %s on its size '%s' accounts for what was already consumed" % (fn.name, pn, key(c)[:50], sn)
            if names & acc:
                rep.proved("R-STALE", fn, inst, desc, "it involves the running total '%s'" % sorted(names & acc)[0], c.get("ln"))
            else:
                rep.violated("R-STALE", fn, inst, desc, "'%s' is advanced (line %s) but '%s' is never reduced and the guard compares it with a per-iteration "
                             "value only: pieces that each fit the original size overflow the buffer together" % (pn, adv[0].get("ln"), sn), c.get("ln"))
    return n


# ------------------------------------------------------------------ R-GUARD0: constant-extent write never compared with the size

def _derived_names(fn, sn):
    names = {sn}
    for _ in range(3):
        for pos, root, x, ps in fn.nodes():
            if x.get("k") == "bin" and x["op"] == "=" and core.strip_casts(x["x"]).get("k") == "ref":
                if any(r["n"] in names for r in core.refs(x["y"])):
                    names.add(core.strip_casts(x["x"])["n"])
            if x.get("k") == "decl":
                for v in x.get("vars", []):
                    if v.get("init") is not None and any(r["n"] in names for r in core.refs(v["init"])):
                        names.add(v["n"])
    return names


def unguarded_write_rule(rep, fn):
    """an output parameter P with size parameter S: a write of a constant number of bytes at the start of P (memset / memcpy
    with a constant length - directly or through a local that was assigned a constant -, or P[k] = ...) is reached only
    through a branch that looks at S or at something computed from it.  A path from the entry to such a write on which S is
    never examined writes the constant extent whatever the caller's size is."""
    n = 0
    u = fn.unit
    for (pn, sn, usz) in pairs_for(fn):
        pt = [p for p in fn.params if p["n"] == pn][0]
        if u.type(pt["t"])["k"] != "ptr" or u.type(u.type(pt["t"])["to"]).get("const"):
            continue
        dn = _derived_names(fn, sn)
        testing = {bid for bid, b in fn.blocks.items() if b.cond is not None and any(r["n"] in dn for r in core.refs(b.cond))}

        def free_reach(start):
            seen, st = set(), list(start)
            while st:
                b = st.pop()
                if b in seen:
                    continue
                seen.add(b)
                if b in testing:
                    continue
                st.extend(fn.blocks[b].rsucc())
            return seen
        from_entry = free_reach([fn.entry])
        modified = [pos for pos, root, x, ps in fn.nodes() if
                    (x.get("k") == "un" and ("++" in x["op"] or "--" in x["op"]) and core.is_ref(core.strip_casts(x["e"]), name=pn)) or
                    (x.get("k") == "bin" and x["op"].endswith("=") and x["op"] not in ("==", "!=", "<=", ">=") and
                     core.is_ref(core.strip_casts(x["x"]), name=pn))]
        for pos, root, x, ps in fn.nodes():
            ext = None
            what = None
            if x.get("k") == "call" and x.get("fn") in ("memset", "memcpy", "memmove", "bzero", "explicit_bzero") and x.get("args"):
                a0 = core.strip_casts(x["args"][0])
                if a0.get("k") == "ref" and a0["n"] == pn:
                    ext = x["args"][-1]
                    what = "%s(%s, ...)" % (x["fn"], pn)
            elif x.get("k") == "bin" and x["op"] == "=" and core.strip_casts(x["x"]).get("k") == "sub":
                sx = core.strip_casts(x["x"])
                if core.is_ref(core.strip_casts(sx["b"]), name=pn) and const_val(sx["i"]) is not None:
                    ext = {"k": "int", "v": const_val(sx["i"]) + 1, "cv": const_val(sx["i"]) + 1}
                    what = "%s[%d] = ..." % (pn, const_val(sx["i"]))
            if ext is None or any(fn.pos_dominates(m, pos) for m in modified):
                continue
            k = const_val(ext)
            via = None
            e0 = core.strip_casts(ext)
            if k is None and e0.get("k") == "ref" and e0.get("dk") == "local":
                for p2, r2, d, ps2 in fn.nodes():
                    if d.get("k") == "bin" and d["op"] == "=" and core.is_ref(core.strip_casts(d["x"]), id=e0.get("id")) and const_val(d["y"]) is not None:
                        if p2[0] in from_entry and p2[0] not in testing and pos[0] in free_reach([p2[0]]):
                            k, via = const_val(d["y"]), d
            if k is None or k <= 0:
                continue
            n += 1
            inst = "unguarded:%s" % what
            desc = "%s: the %d-byte write %s happens only after the size '%s' was examined" % (fn.name, k, what, sn)
            if pos[0] in from_entry and pos[0] not in testing or (pos[0] in from_entry and pos[0] in testing and False):
                rep.violated("R-GUARD0", fn, inst, desc, "a path from the entry reaches line %s without any test of '%s' or of a value computed from it%s: "
                             "for %s < %d the write passes the end of the buffer" % (x.get("ln"), sn, (" (length set to %d at line %s)" % (k, via.get("ln"))) if via else "",
                                                                                    sn, k), x.get("ln"))
            else:
                rep.proved("R-GUARD0", fn, inst, desc, "every path passes a test of %s" % sorted(dn)[:3], x.get("ln"))
    return n


# ------------------------------------------------------------------ R-AGREE: tail fill

def tail_fill_rule(rep, fn):
    """`memset(P + X, c, S - Y)` on a buffer parameter P of size S fills "the rest": it must begin where it says the rest
    begins, X == Y (same expression).  A start offset counted in another unit (digits instead of bytes) wipes bytes inside
    the value and leaves the end of the buffer unwritten."""
    n = 0
    for (pn, sn, usz) in pairs_for(fn):
        for pos, root, c, ps in fn.calls({"memset", "bzero", "explicit_bzero"}):
            a0 = core.strip_casts(c["args"][0])
            ln_ = core.strip_casts(c["args"][-1])
            if not (a0.get("k") == "bin" and a0["op"] == "+" and core.is_ref(core.strip_casts(a0["x"]), name=pn)):
                continue
            if not (ln_.get("k") == "bin" and ln_["op"] == "-" and core.is_ref(core.strip_casts(ln_["x"]), name=sn)):
                continue
            n += 1
            x_, y_ = key(core.strip_casts(a0["y"])), key(core.strip_casts(ln_["y"]))
            inst = "tail-fill:%s" % pn
            desc = "%s: the fill of the rest of '%s' starts at the offset that is subtracted from '%s'" % (fn.name, pn, sn)
            if x_ == y_:
                rep.proved("R-AGREE", fn, inst, desc, "%s + %s, %s - %s" % (pn, x_, sn, y_), c.get("ln"))
            else:
                rep.violated("R-AGREE", fn, inst, desc, "it starts at %s + %s but its length is %s - %s: the region does not end at the end of the buffer" % (
                    pn, x_, sn, y_), c.get("ln"))
    return n


# ------------------------------------------------------------------ R-STALE: length computed from a cursor that moved since

def stale_length_rule(rep, fn):
    """`n = end - cur; ...; cur += k; ...; f(cur, n)`: a length that was computed as "end minus cursor" is handed to a callee
    together with that cursor after the cursor has advanced (+=, ++): cur + n now lies k bytes behind `end`.  Reported when the
    definition of n dominates the advance, which dominates the call that uses both."""
    n = 0
    u = fn.unit
    pairs = dict(COPY_CALLS_PAIRS)
    pairs.update({k_: [(a, b) for a, b, _rw in v] for k_, v in callee_pairs_for(fn).items()})
    mods = {}
    for pos, root, x, ps in fn.nodes():
        t = None
        if x.get("k") == "un" and ("++" in x["op"] or "--" in x["op"]):
            t = core.strip_casts(x["e"])
        elif x.get("k") == "bin" and x["op"].endswith("=") and x["op"] not in ("==", "!=", "<=", ">="):
            t = core.strip_casts(x["x"])
        if t is not None and t.get("k") == "ref" and t.get("dk") in ("local", "parm"):
            mods.setdefault(t.get("id"), []).append((pos, x))
    for pos, root, c, ps in fn.calls(set(pairs)):
        for pi, li in pairs[c["fn"]]:
            if pi >= len(c["args"]) or li >= len(c["args"]):
                continue
            cur, ln_ = core.strip_casts(c["args"][pi]), core.strip_casts(c["args"][li])
            if cur.get("k") != "ref" or ln_.get("k") != "ref" or ln_.get("dk") != "local":
                continue
            def end_minus_cur(y):
                y = core.strip_casts(y)
                return (y is not None and y.get("k") == "bin" and y.get("op") == "-" and core.is_ref(core.strip_casts(y["y"]), id=cur.get("id"))
                        and cur.get("id") not in core.ref_ids(y["x"]))
            defs = [(p2, x2) for p2, x2 in mods.get(ln_.get("id"), []) if x2.get("k") == "bin" and x2["op"] == "=" and
                    end_minus_cur(x2["y"]) and fn.pos_dominates(p2, pos)]
            if not defs:
                continue
            dpos, dx = max(defs, key=lambda d: sum(1 for o in defs if fn.pos_dominates(o[0], d[0])))     # the closest dominating definition
            n += 1
            inst = "stale-length:%s(%s,%s)" % (c["fn"], cur["n"], ln_["n"])
            desc = "%s: the length '%s' handed to %s with the cursor '%s' was computed from the cursor's current value" % (fn.name, ln_["n"], c["fn"], cur["n"])
            def _forward_reseat(x3):
                # cur = finder(cur, ...): the result lies at or after the old position
                if not (x3.get("k") == "bin" and x3["op"] == "="):
                    return False
                y3 = core.strip_casts(x3["y"])
                return y3 is not None and y3.get("k") == "call" and (y3.get("fn") or "").startswith(FINDERS) and \
                    y3.get("args") and core.is_ref(core.strip_casts(y3["args"][0]), id=cur.get("id"))
            moved = [(p3, x3) for p3, x3 in mods.get(cur.get("id"), []) if p3 != dpos and p3 != pos and fn.pos_dominates(dpos, p3) and
                     fn.pos_dominates(p3, pos) and ((x3.get("k") == "un" and "++" in x3["op"]) or (x3.get("k") == "bin" and x3["op"] == "+=") or
                                                    _forward_reseat(x3))]
            if moved:
                rep.violated("R-STALE", fn, inst, desc, "'%s' was computed at line %s, '%s' moved at line %s, and the call at line %s still passes the old "
                             "length: the callee may read that many bytes past the end" % (ln_["n"], dx.get("ln"), cur["n"], moved[0][1].get("ln"), c.get("ln")), c.get("ln"))
            else:
                rep.proved("R-STALE", fn, inst, desc, "computed at line %s, cursor unchanged since" % dx.get("ln"), c.get("ln"))
    return n


def stale_end_rule(rep, fn):
    """`end = base + size;  loop { ... size -= k ... use(end) ... }`: an end pointer computed once from a base and a size, and
    read inside a loop that changes the size but neither the base nor the end pointer, still marks the *old* end of the
    data from the second round on.  (A loop that advances the base by what it takes from the size keeps base + size
    constant and is not reported.)"""
    n = 0
    writes = {}
    for pos, root, x, ps in fn.nodes():
        t = None
        if x.get("k") == "un" and ("++" in x["op"] or "--" in x["op"]):
            t = core.strip_casts(x["e"])
        elif x.get("k") == "bin" and x["op"].endswith("=") and x["op"] not in ("==", "!=", "<=", ">="):
            t = core.strip_casts(x["x"])
        elif x.get("k") == "un" and x["op"] == "&" and ps and ps[-1].get("k") in ("call", "cast"):
            t = core.strip_casts(x["e"])
        if t is not None and t.get("k") == "ref" and t.get("dk") in ("local", "parm"):
            writes.setdefault(t.get("id"), []).append((pos, x))
    loops = fn.loops()
    for eid, ws in writes.items():
        defs = [(p_, x_) for p_, x_ in ws if x_.get("k") == "bin" and x_["op"] == "="]
        if len(defs) != 1 or len(ws) != 1:
            continue
        dpos, dx = defs[0]
        y = core.strip_casts(dx["y"])
        if not (y is not None and y.get("k") == "bin" and y.get("op") == "+"):
            continue
        a, b = core.strip_casts(y["x"]), core.strip_casts(y["y"])
        if a.get("k") != "ref" or b.get("k") != "ref" or "t" not in a or "t" not in b:
            continue
        ta, tb = fn.unit.type(a["t"]), fn.unit.type(b["t"])
        if ta["k"] == "ptr" and tb["k"] == "int":
            base, size = a, b
        elif tb["k"] == "ptr" and ta["k"] == "int":
            base, size = b, a
        else:
            continue
        end = core.strip_casts(dx["x"])
        for h, body in loops.items():
            if dpos[0] in body or not fn.dominates(dpos[0], h):
                continue
            size_w = [(p_, x_) for p_, x_ in writes.get(size.get("id"), []) if p_[0] in body]
            base_w = [(p_, x_) for p_, x_ in writes.get(base.get("id"), []) if p_[0] in body]
            reads = [pos for pos, root, x, ps in fn.nodes() if pos[0] in body and x.get("k") == "ref" and x.get("id") == eid]
            if not size_w or not reads:
                continue
            n += 1
            inst = "stale-end:%s=%s+%s" % (end.get("n"), base.get("n"), size.get("n"))
            desc = "%s: the end pointer '%s' = %s + %s read inside the loop at line %s is recomputed when the loop changes '%s'" % (
                fn.name, end.get("n"), base.get("n"), size.get("n"), (fn.blocks[h].cond or {}).get("ln"), size.get("n"))
            if base_w:
                rep.proved("R-STALE", fn, inst, desc, "the loop moves '%s' together with '%s'" % (base.get("n"), size.get("n")), dx.get("ln"))
            else:
                rep.violated("R-STALE", fn, inst, desc, "'%s' is computed once at line %s; the loop changes '%s' at line %s and keeps reading '%s': "
                             "from the second round on it points behind the data" % (end.get("n"), dx.get("ln"), size.get("n"),
                                                                                      size_w[0][1].get("ln"), end.get("n")), dx.get("ln"))
    return n


FINDERS = ("mem_find", "mem_chr", "mem_rchr", "memmem", "memchr", "memrchr", "mem_find_ptr", "mem_chr_ptr")


def post_find_rule(rep, fn):
    """R-POSTFIND: a finder returns a pointer p to a match that lies inside [buf, buf + size) - the match may *end* exactly at
    buf + size.  Code that steps over the match (p += k) and then looks at what follows (*p, p[1], *(p + 1)) needs a
    comparison of p with the end in between; with none, a delimiter that closes the buffer makes it read behind it."""
    n = 0
    found = {}
    for pos, root, x, ps in fn.nodes():
        if x.get("k") == "bin" and x["op"] == "=":
            y = core.strip_casts(x["y"])
            l = core.strip_casts(x["x"])
            if y is not None and y.get("k") == "call" and (y.get("fn") or "").startswith(FINDERS) and l.get("k") == "ref":
                # room the caller left behind the searched extent: a size argument of the form  N - c
                room = 0
                for a in y.get("args", []):
                    a0 = core.strip_casts(a)
                    if a0 is not None and "t" in a0 and fn.unit.type(a0["t"])["k"] == "int":
                        if a0.get("k") == "bin" and a0.get("op") == "-" and const_val(a0["y"]) is not None:
                            room = const_val(a0["y"])
                        break
                found[l["id"]] = min(room, found.get(l["id"], room))
    if not found:
        return 0
    for pos, root, x, ps in fn.nodes():
        st_ = core.step_of(x)
        if st_ is None or st_[1] is None or st_[1] <= 0:
            continue
        v = core.strip_casts(st_[0])
        if v.get("k") != "ref" or v.get("id") not in found:
            continue
        # forward from the advance: first dereference of v on each path, stopping at a relational test of v or a re-assignment
        seen = set()
        derived = set()
        work = [(pos[0], pos[1] + 1)]
        bad = None
        while work and bad is None:
            b, i0 = work.pop()
            if (b, i0) in seen:
                continue
            seen.add((b, i0))
            stop = False
            elems = fn.blocks[b].elems
            for i in range(i0, len(elems)):
                e = elems[i]
                for y, ps2 in walk(e):
                    if y.get("k") == "bin" and y["op"] in ("<", ">", "<=", ">=") and v["id"] in core.ref_ids(y):
                        stop = True
                    # a quantity computed from the advanced pointer (remaining = end - p) and then tested counts as the test
                    if y.get("k") == "bin" and y["op"] in ("<", ">", "<=", ">=", "==", "!=") and (core.ref_ids(y) & derived):
                        stop = True
                    if y.get("k") == "bin" and y["op"] == "=" and core.is_ref(core.strip_casts(y["x"]), id=v["id"]):
                        stop = True
                    if y.get("k") == "bin" and y["op"] == "=" and v["id"] in core.ref_ids(y["y"]) and core.strip_casts(y["x"]).get("k") == "ref":
                        derived.add(core.strip_casts(y["x"]).get("id"))
                if stop:
                    break
                for y, ps2 in walk(e):
                    d = None
                    if y.get("k") == "un" and y.get("op") == "*":
                        d = y["e"]
                    elif y.get("k") == "sub":
                        d = y["b"]
                    if d is not None and v["id"] in core.ref_ids(d) and not any(core.step_of(q) is not None for q in ps2):
                        off_ = 0
                        d0 = core.strip_casts(d)
                        if y.get("k") == "sub" and const_val(y["i"]) is not None:
                            off_ = const_val(y["i"])
                        elif d0.get("k") == "bin" and d0.get("op") == "+":
                            off_ = next((const_val(q) for q in (d0["x"], d0["y"]) if const_val(q) is not None), 0)
                        if off_ >= found[v["id"]]:
                            bad = y
                            break
                if bad is not None:
                    break
            if stop or bad is not None:
                continue
            for s_ in fn.blocks[b].rsucc():
                work.append((s_, 0))
        n += 1
        inst = "post-find:%s#%d" % (v.get("n"), n)
        desc = "%s: after stepping over the match (%s advanced by %d at line %s) the pointer is compared with the end before it is dereferenced" % (
            fn.name, v["n"], st_[1], x.get("ln"))
        if bad is not None:
            rep.violated("R-POSTFIND", fn, inst, desc, "'%s' is dereferenced at line %s with no comparison in between: when the match ends the buffer this "
                         "reads behind it" % (v["n"], bad.get("ln")), x.get("ln"))
        else:
            rep.proved("R-POSTFIND", fn, inst, desc, "", x.get("ln"))
    return n


NUM_PARSERS = ("ustrh2u", "strh2u", "ustr2u", "str2u", "ustr2s", "str2s", "strtoul", "strtoull", "strtol", "strtoll", "atoi", "atol")


def parsed_addend_rule(rep, fn):
    """R-WRAP: a number taken from the input by a text-to-number routine can be anything up to the type's maximum.  Added to a
    pointer first and compared with the end afterwards (`p = q + n; if (p > end)`), a huge n wraps the pointer past the end
    of the address space and the test passes.  Every pointer addition of such a value is dominated by a relational
    comparison in which the value itself (not the sum) is compared with a size; the comparison lies after the parsing
    assignment (a test of the same variable while it was a loop counter does not count)."""
    n = 0
    parsed = {}
    parsed_at = {}
    for pos, root, x, ps in fn.nodes():
        if x.get("k") == "bin" and x["op"] == "=":
            y = core.strip_casts(x["y"])
            l = core.strip_casts(x["x"])
            if y is not None and y.get("k") == "call" and (y.get("fn") or "").startswith(NUM_PARSERS) and l.get("k") == "ref":
                parsed[l["id"]] = l["n"]
                parsed_at.setdefault(l["id"], set()).add(pos[0])
    if not parsed:
        return 0
    for pos, root, x, ps in fn.nodes():
        tgt = None
        if x.get("k") == "bin" and x["op"] in ("+", "+=") and "t" in x and fn.unit.type(x["t"])["k"] == "ptr":
            ids = core.ref_ids(x["y"]) | (core.ref_ids(x["x"]) if x["op"] == "+" else set())
            hit = [i for i in ids if i in parsed]
            if hit and not (ps and ps[-1].get("k") == "bin" and ps[-1]["op"] == "+" and "t" in ps[-1] and fn.unit.type(ps[-1]["t"])["k"] == "ptr"):
                tgt = hit[0]
        if tgt is None:
            continue
        n += 1
        guarded = False
        for bid in fn.reachable_blocks():
            c = fn.blocks[bid].cond
            if c is None or bid == pos[0] and False:
                continue
            if not fn.dominates(bid, pos[0]) or bid == pos[0]:
                continue
            # the test must see the parsed number: it lies at or after the parsing assignment (the variable may have served
            # as a plain counter before it, and a comparison of the counter bounds nothing)
            if not any(pb == bid or fn.dominates(pb, bid) for pb in parsed_at.get(tgt, ())):
                continue
            for y, _ in walk(c):
                if y.get("k") == "bin" and y["op"] in ("<", ">", "<=", ">="):
                    for side in (y["x"], y["y"]):
                        s0 = core.strip_casts(side)
                        if s0 is not None and s0.get("k") == "ref" and s0.get("id") == tgt:
                            guarded = True
        inst = "parsed-addend:%s#%d" % (parsed[tgt], n)
        desc = "%s: the parsed number '%s' is compared with a size before it is added to a pointer (line %s)" % (fn.name, parsed[tgt], x.get("ln"))
        if guarded:
            rep.proved("R-WRAP", fn, inst, desc, "", x.get("ln"))
        else:
            rep.violated("R-WRAP", fn, inst, desc, "no dominating relational test of '%s' itself: a value near the type's maximum wraps the "
                         "pointer, and a later test of the sum against the end passes" % parsed[tgt], x.get("ln"))
    return n


def _sum_terms(e):
    """{atom key: coeff, '': const} of a +-chain (no expansion), None if something else"""
    e = core.strip_casts(e)
    if e is None:
        return None
    cv = const_val(e)
    if cv is not None:
        return {"": cv}
    if e.get("k") == "bin" and e["op"] == "+":
        a, b = _sum_terms(e["x"]), _sum_terms(e["y"])
        if a is None or b is None:
            return None
        r = dict(a)
        for k_, v in b.items():
            r[k_] = r.get(k_, 0) + v
        return r
    if e.get("k") == "bin" and e["op"] == "-" and const_val(e["y"]) is not None:
        a = _sum_terms(e["x"])
        if a is None:
            return None
        r = dict(a)
        r[""] = r.get("", 0) - const_val(e["y"])
        return r
    return {key(e): 1}


def guard_agree_rule(rep, fn):
    """R-AGREE (capacity test vs bytes written): an output cursor c with end pointer m is guarded by `m <= c + E` (leave);
    the copies into c that follow before the next such guard advance c by L1, L2, ...  The quantity compared must be the
    quantity written: every term of L1 + L2 + ... occurs in E.  A copy into c with no such guard before it at all is
    reported too (the tail copy after a loop whose guards only covered the loop's own copies)."""
    COPY = {"memcpy": 2, "memmove": 2}
    # guards: cond blocks whose condition is a relation between an end pointer and cursor + E
    guards = []
    for bid in fn.reachable_blocks():
        c = fn.blocks[bid].cond
        if c is None:
            continue
        for y, _ in walk(c):
            if y.get("k") == "bin" and y["op"] in ("<", ">", "<=", ">="):
                for side, other in ((y["x"], y["y"]), (y["y"], y["x"])):
                    t = _sum_terms(side)
                    o = core.strip_casts(other)
                    if t is None or o is None or o.get("k") != "ref" or "t" not in o or fn.unit.type(o["t"])["k"] != "ptr":
                        continue
                    ptrs = [k_ for k_ in t if k_ and any(r.get("k") == "ref" and key(r) == k_ and "t" in r and fn.unit.type(r["t"])["k"] == "ptr"
                                                          for r, _ in walk(side))]
                    if len(ptrs) == 1 and len(t) >= 2:
                        e_ = {k_: v for k_, v in t.items() if k_ != ptrs[0]}
                        guards.append((bid, ptrs[0], e_, y.get("ln")))
    if not guards:
        return 0
    cursors = {g[1] for g in guards}
    n = 0
    copies = []
    for pos, root, c, ps in fn.calls(set(COPY)):
        d = core.strip_casts(c["args"][0])
        if d.get("k") == "ref" and key(d) in cursors:
            if d.get("id") in core.ref_ids(c["args"][1]):
                continue                    # an in-place shift (the source is taken relative to the cursor): not an output copy
            copies.append((pos, c, key(d)))
    by_guard = {}
    for pos, c, cur in copies:
        doms = [g for g in guards if g[1] == cur and g[0] != pos[0] and fn.dominates(g[0], pos[0])]
        # nearest: the one dominated by all the others
        near = None
        for g in doms:
            if all(fn.dominates(o[0], g[0]) for o in doms):
                near = g
        # a guard inside a loop does not cover a copy after the loop
        if near is not None:
            loops = fn.loops()
            gl = [h for h, body in loops.items() if near[0] in body]
            if any(pos[0] not in loops[h] for h in gl):
                near = None
        by_guard.setdefault(near[0] if near else None, []).append((pos, c, cur, near))
    for gk, items in by_guard.items():
        n += 1
        cur = items[0][2]
        if gk is None:
            for pos, c, cur, _g in items:
                rep.violated("R-AGREE", fn, "capacity-test:%s:unguarded#%d" % (cur, n), "%s: every copy into the output cursor '%s' is preceded by a capacity test" % (fn.name, cur),
                             "%s(%s, ..., %s) at line %s is not covered by any test of '%s' against its end (the tests inside the loop cover only the loop's "
                             "own copies)" % (c["fn"], cur, key(c["args"][2])[:40], c.get("ln"), cur), c.get("ln"))
            continue
        g = items[0][3]
        written = {}
        ok_lin = True
        for pos, c, cur, _g in items:
            t = _sum_terms(c["args"][COPY[c["fn"]]])
            if t is None:
                ok_lin = False
                continue
            for k_, v in t.items():
                written[k_] = written.get(k_, 0) + v
        desc = "%s: the capacity test of '%s' at line %s compares what the following copies write" % (fn.name, cur, g[3])
        inst = "capacity-test:%s#%d" % (cur, n)
        missing = [k_ for k_, v in written.items() if k_ and v > g[2].get(k_, 0)]
        if not ok_lin:
            rep.undecided("R-AGREE", fn, inst, desc, "a copy length is not a sum of terms")
        elif missing:
            rep.violated("R-AGREE", fn, inst, desc, "the test adds %s, the copies write %s: '%s' is written but not counted" % (
                " + ".join(k_ for k_ in g[2] if k_) or "a constant", " + ".join(k_ for k_ in written if k_), missing[0]), g[3])
        else:
            rep.proved("R-AGREE", fn, inst, desc, "%s" % " + ".join(k_ for k_ in written if k_), g[3])
    return n


def terminator_rule(rep, fn):
    """R-TERM: a cursor p walks a buffer together with its remaining size r (both advanced by the same step).  A store
    `*(p + n) = c` with n set to r on some path (`n = r`: "the rest of the buffer is the item") writes the byte at
    p + r - the first byte behind the buffer - unless a relational test of n lies between that assignment and the store."""
    n_ = 0
    # (cursor, remaining) pairs: `r -= x` and `p += x` with the same x in one block
    pairs = set()
    for bid in fn.reachable_blocks():
        subs, adds = {}, {}
        for e in fn.blocks[bid].elems:
            for y, _ in walk(e):
                if y.get("k") == "bin" and y["op"] in ("-=", "+=") and core.strip_casts(y["x"]).get("k") == "ref":
                    (subs if y["op"] == "-=" else adds).setdefault(key(core.strip_casts(y["y"])), []).append(core.strip_casts(y["x"]))
        for k_, rs in subs.items():
            for r in rs:
                for p in adds.get(k_, []):
                    if "t" in p and fn.unit.type(p["t"])["k"] == "ptr" and "t" in r and fn.unit.type(r["t"])["k"] == "int":
                        pairs.add((p["id"], r["id"], p["n"], r["n"]))
    if not pairs:
        return 0
    for pid, rid, pn, rn in pairs:
        copies = [(pos, y) for pos, root, y, ps in fn.nodes() if y.get("k") == "bin" and y["op"] == "=" and core.strip_casts(y["x"]).get("k") == "ref" and
                  core.is_ref(core.strip_casts(y["y"]), id=rid)]
        for cpos, cy in copies:
            nvar = core.strip_casts(cy["x"])
            for spos, root, y, ps in fn.nodes():
                if not (y.get("k") == "bin" and y["op"] == "=" and const_val(y["y"]) is not None):
                    continue
                l = core.strip_casts(y["x"])
                tgt = None
                if l.get("k") == "un" and l.get("op") == "*":
                    t = _sum_terms(l["e"])
                    if t is not None and set(k_ for k_ in t if k_) == {pn, nvar["n"]}:
                        tgt = l
                elif l.get("k") == "sub" and core.is_ref(core.strip_casts(l["b"]), id=pid) and core.is_ref(core.strip_casts(l["i"]), id=nvar["id"]):
                    tgt = l
                if tgt is None:
                    continue
                n_ += 1
                # path from the copy to the store without a relational test of n and without another assignment to n
                seen = set()
                work = [(cpos[0], cpos[1] + 1)]
                hit = False
                while work and not hit:
                    b, i0 = work.pop()
                    if (b, i0) in seen:
                        continue
                    seen.add((b, i0))
                    stop = False
                    elems = fn.blocks[b].elems
                    for i in range(i0, len(elems)):
                        if (b, i) == spos:
                            hit = True
                            break
                        for z, _ in walk(elems[i]):
                            if z.get("k") == "bin" and z["op"] in ("<", ">", "<=", ">=") and nvar["id"] in core.ref_ids(z):
                                stop = True
                            if z.get("k") == "bin" and z["op"] == "=" and core.is_ref(core.strip_casts(z["x"]), id=nvar["id"]) and z is not cy:
                                stop = True
                        if stop:
                            break
                    if not stop and not hit:
                        for s_ in fn.blocks[b].rsucc():
                            work.append((s_, 0))
                inst = "terminator:%s+%s#%d" % (pn, nvar["n"], n_)
                desc = "%s: the terminator stored at %s + %s stays inside the buffer when %s is the whole remaining size '%s'" % (fn.name, pn, nvar["n"], nvar["n"], rn)
                if hit:
                    rep.violated("R-TERM", fn, inst, desc, "'%s = %s' at line %s reaches the store at line %s with no test of '%s' in between: the byte at "
                                 "%s + %s is the first byte behind the buffer" % (nvar["n"], rn, cy.get("ln"), y.get("ln"), nvar["n"], pn, rn), y.get("ln"))
                else:
                    rep.proved("R-TERM", fn, inst, desc, "", y.get("ln"))
    return n_


def table_index_rule(rep, fn):
    """R-INDEX: a fixed table (global array of known length N) indexed by a variable: the variable's type cannot exceed
    N - 1, or the index expression is masked / reduced below N, or a relational test of the variable dominates the access.
    With none of these the index is whatever the input said."""
    n = 0
    u = fn.unit
    for pos, root, x, ps in fn.nodes():
        if x.get("k") != "sub":
            continue
        b = core.strip_casts(x["b"])
        if b.get("k") != "ref" or b.get("dk") not in ("global", "static") or "t" not in b:
            continue
        bt = u.type(b["t"])
        if bt["k"] != "arr" or not bt.get("n"):
            continue
        N = int(bt["n"])
        i = core.strip_casts(x["i"])
        if const_val(i) is not None:
            continue
        n += 1
        inst = "table-index:%s[%s]#%d" % (b["n"], key(i)[:30], n)
        desc = "%s: the index of %s[%d] is below %d" % (fn.name, b["n"], N, N)
        # by type
        it = u.type(x["i"]["t"]) if "t" in x["i"] else None
        it0 = u.type(i["t"]) if "t" in i else None
        if it0 is not None and it0["k"] == "int" and not it0.get("sg") and (1 << it0.get("w", 64)) <= N:
            rep.proved("R-INDEX", fn, inst, desc, "index type has %d bits" % it0["w"], x.get("ln"))
            continue
        # by form: e & c, e % c, e >> k of a narrow value
        def bounded(e):
            e = core.strip_casts(e)
            if e.get("k") == "bin" and e["op"] == "&":
                cs = [const_val(core.strip_casts(q)) for q in (e["x"], e["y"])]
                cs = [c_ for c_ in cs if c_ is not None]
                if cs:
                    return min(cs) + 1
                a_, b_ = bounded(e["x"]), bounded(e["y"])
                return min([v for v in (a_, b_) if v is not None], default=None)
            if e.get("k") == "bin" and e["op"] == "%" and const_val(e["y"]) is not None:
                return const_val(e["y"])
            if e.get("k") == "bin" and e["op"] == "|":
                a_, b_ = bounded(e["x"]), bounded(e["y"])
                if a_ is not None and b_ is not None:
                    m = max(a_, b_) - 1
                    return (1 << m.bit_length())
                return None
            if e.get("k") == "bin" and e["op"] == ">>" and const_val(e["y"]) is not None and "t" in core.strip_casts(e["x"]):
                t_ = u.type(core.strip_casts(e["x"])["t"])
                if t_["k"] == "int" and not t_.get("sg"):
                    return 1 << max(0, t_.get("w", 64) - const_val(e["y"]))
                return None
            if e.get("k") in ("ref", "sub", "mem", "un") and "t" in e:
                t_ = u.type(e["t"])
                if t_["k"] == "int" and not t_.get("sg") and t_.get("w", 64) <= 16:
                    return 1 << t_["w"]
            return None
        bd = bounded(i)
        if bd is not None and bd <= N:
            rep.proved("R-INDEX", fn, inst, desc, "index expression is below %d by form" % bd, x.get("ln"))
            continue
        ids = core.ref_ids(i)
        guarded = False
        for bid in fn.reachable_blocks():
            c = fn.blocks[bid].cond
            if c is None or not fn.dominates(bid, pos[0]) or bid == pos[0]:
                continue
            for y, _ in walk(c):
                if y.get("k") == "bin" and y["op"] in ("<", ">", "<=", ">=") and (core.ref_ids(y) & ids):
                    guarded = True
        # index built from values read out of the same table (a table-driven automaton): bounded by the table's content
        from_table = False
        for vid in ids:
            defs = [y["y"] for _p, _r, y, _ps in fn.nodes() if y.get("k") == "bin" and y["op"] == "=" and core.is_ref(core.strip_casts(y["x"]), id=vid)]
            for _p, _r, y, _ps in fn.nodes():
                if y.get("k") == "decl":
                    defs += [v_["init"] for v_ in y.get("vars", []) if v_.get("id") == vid and v_.get("init") is not None]
            if defs and all(any(q.get("k") == "sub" and key(core.strip_casts(q["b"])) == b["n"] for q, _ in walk(d_)) or const_val(d_) is not None for d_ in defs):
                from_table = True
        if guarded:
            rep.proved("R-INDEX", fn, inst, desc, "a relational test of the index dominates the access", x.get("ln"))
        elif from_table:
            rep.undecided("R-INDEX", fn, inst, desc, "the index is built from values read out of the table itself: bounded by the table's content, not decided here", x.get("ln"))
        elif not ids:
            rep.undecided("R-INDEX", fn, inst, desc, "index is not a variable expression", x.get("ln"))
        else:
            rep.violated("R-INDEX", fn, inst, desc, "no test, mask or narrow type bounds '%s': an input value of %d or more reads behind the table" % (key(i)[:40], N), x.get("ln"))
    return n


def index_minus_rule(rep, fn):
    """R-INDEX (lower end): `a[v - c]` with an unsigned variable v and a constant c >= 1: when v < c the index wraps to a huge
    value (a read before the array).  Some branch that dominates the access excludes v == 0 .. c - 1 (a test of v against
    zero / a relational test of v), or v was assigned a value >= c right before."""
    from rules import r_range
    n = 0
    for pos, root, x, ps in fn.nodes():
        if x.get("k") != "sub":
            continue
        i = core.strip_casts(x["i"])
        if not (i.get("k") == "bin" and i.get("op") == "-" and const_val(i["y"]) is not None and const_val(i["y"]) >= 1):
            continue
        v = core.strip_casts(i["x"])
        if v.get("k") != "ref" or "t" not in v:
            continue
        t = fn.unit.type(v["t"])
        if t["k"] != "int" or t.get("sg"):
            continue
        n += 1
        inst = "index-minus:%s[%s-%d]#%d" % (key(core.strip_casts(x["b"]))[:24], v["n"], const_val(i["y"]), n)
        desc = "%s: %s is not zero where %s[%s - %d] is accessed" % (fn.name, v["n"], key(core.strip_casts(x["b"]))[:24], v["n"], const_val(i["y"]))
        ok, why = r_range.excludes_zero(fn, pos, v)
        if not ok:
            # a relational test of v that dominates (v > k, k < v, v >= 1 ...)
            for bid in fn.reachable_blocks():
                c = fn.blocks[bid].cond
                if c is None or bid == pos[0] or not fn.dominates(bid, pos[0]):
                    continue
                for y, _ in walk(c):
                    if y.get("k") == "bin" and y["op"] in ("<", ">", "<=", ">=") and v["id"] in core.ref_ids(y):
                        ok, why = True, "relational test at line %s" % c.get("ln")
        if ok:
            rep.proved("R-INDEX", fn, inst, desc, why, x.get("ln"))
        else:
            rep.violated("R-INDEX", fn, inst, desc, "no dominating test excludes %s == 0: the index wraps and the element before the array is accessed" % v["n"], x.get("ln"))
    return n


def counted_array_rule(rep, fn):
    """R-INDEX (counted parameter arrays): a pointer parameter A that comes with a parameter A_count (A_cnt holds the element
    *sizes* in this code base, A_count the number of elements) and is subscripted with a variable: a relational test of that
    variable against A_count dominates the access, or the variable is the induction variable of a loop bounded by A_count."""
    n = 0
    pnames = {p["n"]: p for p in fn.params}
    for pos, root, x, ps in fn.nodes():
        if x.get("k") != "sub":
            continue
        b = core.strip_casts(x["b"])
        if b.get("k") != "ref" or b.get("dk") != "parm":
            continue
        cnt = None
        for suf in ("_count",):
            if b["n"] + suf in pnames:
                cnt = b["n"] + suf
        if cnt is None:
            # sibling arrays sharing one count: tag_arr / tag_arr_cnt / ret_ns... -> <stem>_count of the first array parameter
            for pn in pnames:
                if pn.endswith("_count") and b["n"].startswith(pn[:-6]):
                    cnt = pn
        if cnt is None:
            continue
        i = core.strip_casts(x["i"])
        if i.get("k") != "ref":
            continue
        n += 1
        inst = "counted-array:%s[%s]#%d" % (b["n"], i["n"], n)
        desc = "%s: %s < %s where %s[%s] is accessed" % (fn.name, i["n"], cnt, b["n"], i["n"])
        ok = False
        for bid in fn.reachable_blocks():
            c = fn.blocks[bid].cond
            if c is None or not fn.dominates(bid, pos[0]):
                continue
            for y, _ in walk(c):
                if y.get("k") == "bin" and y["op"] in ("<", ">", "<=", ">=") and i["id"] in core.ref_ids(y) and                         any(r.get("k") == "ref" and r.get("n") == cnt for r, _ in walk(y)):
                    ok = True
        (rep.proved if ok else rep.violated)("R-INDEX", fn, inst, desc, "" if ok else "no dominating comparison of '%s' with '%s': when every requested element "
                                             "has been matched the index equals the count" % (i["n"], cnt), x.get("ln"))
    return n


def stale_remaining_rule(rep, fn):
    """`left = end - cur` ties a remaining-size variable to a cursor.  Wherever the cursor is given a new value afterwards
    (assignment, or its address handed to a callee), the same block also updates `left` - otherwise the loop that follows
    walks from the new position with the size that belonged to the old one."""
    n = 0
    writes = {}
    for pos, root, x, ps in fn.nodes():
        t = None
        if x.get("k") == "un" and ("++" in x["op"] or "--" in x["op"]):
            t = core.strip_casts(x["e"])
        elif x.get("k") == "bin" and x["op"].endswith("=") and x["op"] not in ("==", "!=", "<=", ">="):
            t = core.strip_casts(x["x"])
        elif x.get("k") == "un" and x["op"] == "&" and ps and ps[-1].get("k") in ("call", "cast"):
            t = core.strip_casts(x["e"])
        elif x.get("k") == "decl":
            for v in x.get("vars", []):
                if v.get("init") is not None:
                    writes.setdefault(v["id"], []).append((pos, {"k": "bin", "op": "=", "x": {"k": "ref", "id": v["id"], "n": v["n"]}, "y": v["init"], "ln": x.get("ln")}))
        if t is not None and t.get("k") == "ref" and t.get("dk") in ("local", "parm"):
            writes.setdefault(t.get("id"), []).append((pos, x))
    for lid, ws in writes.items():
        for dpos, dx in ws:
            if not (dx.get("k") == "bin" and dx["op"] == "="):
                continue
            y = core.strip_casts(dx["y"])
            if not (y is not None and y.get("k") == "bin" and y.get("op") == "-"):
                continue
            c = core.strip_casts(y["y"])
            if not (c.get("k") == "ref" and c.get("dk") == "local" and "t" in c and fn.unit.type(c["t"])["k"] == "ptr"):
                continue
            if c.get("id") in core.ref_ids(y["x"]) or c.get("id") == lid:
                continue
            lname = core.strip_casts(dx["x"]).get("n")
            n += 1
            inst = "remaining:%s/%s" % (lname, c["n"])
            desc = "%s: '%s' (computed as end - %s at line %s) is updated wherever '%s' gets a new value afterwards" % (fn.name, lname, c["n"], dx.get("ln"), c["n"])
            bad = None
            lw_blocks = {}
            for wp, wx in ws:
                lw_blocks.setdefault(wp[0], []).append(wp[1])
            # reads of L per block
            lreads = {}
            for rpos, root, rx, rps in fn.nodes():
                if rx.get("k") == "ref" and rx.get("id") == lid:
                    par = rps[-1] if rps else None
                    is_lhs = par is not None and par.get("k") == "bin" and par["op"] == "=" and core.strip_casts(par["x"]) is rx
                    if not is_lhs:
                        lreads.setdefault(rpos[0], []).append(rpos[1])
            for mpos, mx in writes.get(c.get("id"), []):
                after = (mpos[0] == dpos[0] and mpos[1] > dpos[1]) or (mpos[0] != dpos[0] and mpos[0] in fn.reach_from(fn.blocks[dpos[0]].rsucc()))
                if not after or (mpos == dpos):
                    continue
                # the size and the cursor are moved together when the same block writes both (in either order), and the size
                # computed at D is known to be the current one only where D dominates the re-seat
                if mpos[0] in lw_blocks or not fn.pos_dominates(dpos, mpos):
                    continue
                # only a re-seat the function does not compute itself is reported: the cursor's address handed to a callee.
                # (Assignments such as p = find(p, ...) are too often followed by a deliberate re-use of the size variable for
                # something else - xml_get_val_arr - to be judged here.)
                if not (mx.get("k") == "un" and mx.get("op") == "&"):
                    continue
                # from M forward: is L read before it is written again?
                def first_event(block, start_idx):
                    ev = [(i, "w") for i in lw_blocks.get(block, []) if i > start_idx] + [(i, "r") for i in lreads.get(block, []) if i > start_idx]
                    return min(ev)[1] if ev else None
                fe = first_event(mpos[0], mpos[1])
                stale_use = False
                if fe == "r":
                    stale_use = True
                elif fe is None:
                    seen, st = set(), list(fn.blocks[mpos[0]].rsucc())
                    while st and not stale_use:
                        b = st.pop()
                        if b in seen:
                            continue
                        seen.add(b)
                        fe2 = first_event(b, -1)
                        if fe2 == "r":
                            stale_use = True
                        elif fe2 is None:
                            st.extend(fn.blocks[b].rsucc())
                if stale_use:
                    bad = bad or "'%s' is given a new value at line %s and '%s' is read afterwards before it is recomputed: it still holds the size " \
                        "that belonged to the old position" % (c["n"], mx.get("ln"), lname)
            (rep.violated if bad else rep.proved)("R-STALE", fn, inst, desc, bad or "", dx.get("ln"))
    return n


COPY_CALLS_PAIRS = {"memcpy": [(0, 2), (1, 2)], "memmove": [(0, 2), (1, 2)], "memset": [(0, 2)], "memchr": [(0, 2)], "memcmp": [(0, 2), (1, 2)]}


def all_lints(rep, fn):
    """every structural lint of this module on one function"""
    short_circuit_rule(rep, fn)
    stale_bound_rule(rep, fn)
    unguarded_write_rule(rep, fn)
    tail_fill_rule(rep, fn)
    stale_length_rule(rep, fn)
    stale_remaining_rule(rep, fn)
    stale_end_rule(rep, fn)
    r_outdef.check(rep, fn)
    post_find_rule(rep, fn)
    parsed_addend_rule(rep, fn)
    guard_agree_rule(rep, fn)
    terminator_rule(rep, fn)
    table_index_rule(rep, fn)
    index_minus_rule(rep, fn)
    counted_array_rule(rep, fn)


def run_scope(rep, tier, us, exclude=(), only=None, budget_quick=45, extra_rules=()):
    """analyse every function defined in the units' own files; returns (functions, tracked accesses)"""
    jobs = []
    for lab, u in us.items():
        rel = lab if lab.startswith("src/") else "include/" + lab
        names = [n for n in functions_of(u, rel, exclude) if not n.endswith("self_test") and (only is None or n in only)]
        jobs.append((u, names))
    allres = run_many(jobs, budget=budget_quick if tier == "quick" else None)
    total = nfn = 0
    for u, names in jobs:
        res = {n: allres[(u.label, n)] for n in names}
        total += report(rep, u, names, res)
        nfn += len(names)
        for n in names:
            fn = u.fn(n)
            all_lints(rep, fn)
            for r in extra_rules:
                r(rep, fn)
    return nfn, total


def selftest_cursor():
    from props import fixtures
    u = fixtures.load("cursor.c")
    rep = driver.Report("fixture", "quick")
    names = [f.name for f in u.function_list if f.name.startswith("fx_")]
    report(rep, u, names, run_functions(u, names))
    for f in u.function_list:
        if f.name.startswith("fx_"):
            short_circuit_rule(rep, f)
    fixtures.expect(rep, ["fx_scan_bad_order", "fx_scan_bad_le", "fx_copy_bad_term", "fx_idx_bad", "fx_peek_bad", "fx_find_bad"],
                    ["fx_scan_ok", "fx_copy_ok", "fx_copy_ok_term", "fx_idx_ok", "fx_peek_ok", "fx_loop_ok", "fx_tab_ok", "fx_find_ok"], "R-CURSOR")
    u = fixtures.load("lints.c")
    rep = driver.Report("fixture", "quick")
    for f in u.function_list:
        if f.name.startswith("fx_"):
            stale_bound_rule(rep, f)
            unguarded_write_rule(rep, f)
            tail_fill_rule(rep, f)
            stale_length_rule(rep, f)
            stale_end_rule(rep, f)
    fixtures.expect(rep, ["fx_gather_bad", "fx_zero_bad", "fx_fill_bad", "fx_pair_bad", "fx_end_bad"],
                    ["fx_gather_ok", "fx_zero_ok", "fx_fill_ok", "fx_pair_ok", "fx_end_ok"],
                    "R-STALE / R-GUARD0 / tail fill / stale length / stale end")
