"""C03 rule from the second audit pass (replays/C03-hunt2).

  R-INF  a point computed by a scalar multiplication into a local object has its infinity flag looked at before one of its
         coordinates is read: 0 * G is the neutral element, which has no x; the BIN fixed-point multiplier only sets the
         flag and leaves the coordinates of G in place (nonce 0 gave r = Gx, s = r * d: the private key in the signature)
"""
from rules import driver, core
from rules.core import key, walk

MULTS = {"ec_point_mult_bp", "ec_point_mult", "ec_point_twin_mult_bp", "ec_point_twin_mult"}
# callees that look at the flag of the point handed to them (confirmed by reading)
CHECKERS = {"ec_point_check_as_pub_key", "ec_point_check_as_pub_key__int", "ec_point_is_at_infinity"}
ECDSA_H = "include/crypto/dsa/ecdsa.h"


def infinity_rule(rep, u):
    n = 0
    for fn in u.function_list:
        if fn.relfile() != ECDSA_H or not fn.has_cfg or fn.name.endswith("self_test"):
            continue
        for pos, root, call, ps in fn.calls(MULTS):
            out = core.strip_casts(call["args"][-1])
            if not (out.get("k") == "un" and out["op"] == "&"):
                continue                                  # result goes to the caller's object: the caller's obligation
            obj = core.strip_casts(out["e"])
            if not (core.is_ref(obj) and obj.get("dk") == "local"):
                continue
            oid = obj["id"]
            reach = fn.reach_from([pos[0]])
            # positions that look at the flag
            looks = []
            reads = []
            for p2, r2, x, ps2 in fn.nodes():
                if p2[0] not in reach and p2[0] != pos[0]:
                    continue
                if p2[0] == pos[0] and p2[1] <= pos[1]:
                    continue
                if x.get("k") == "mem" and core.is_ref(core.strip_casts(x["b"])) and core.strip_casts(x["b"]).get("id") == oid:
                    if x["f"] == "infinity":
                        looks.append(p2)
                    elif x["f"] in ("x", "y", "z"):
                        reads.append((p2, x))
                if x.get("k") == "call" and x.get("fn") in CHECKERS and any(oid in core.ref_ids(a) for a in x["args"]):
                    looks.append(p2)
            if not reads:
                continue
            n += 1
            rep.functions.add(fn.name)
            first = min(reads, key=lambda t: (0 if t[0][0] == pos[0] else 1, -t[0][0], t[0][1]))
            bad = [(p2, x) for p2, x in reads if not any(fn.pos_dominates(l, p2) for l in looks)]
            inst = "infinity-before-coordinates:%s" % obj["n"]
            desc = "%s: the result %s of %s has its infinity flag tested before a coordinate is read" % (fn.name, obj["n"], call["fn"])
            if bad:
                p2, x = bad[0]
                rep.violated("R-INF", fn, inst, desc, "%s at line %s is read without a test of %s.infinity: with scalar 0 (nonce 0) the BIN multiplier leaves G's coordinates "
                             "in place, the signature is r = Gx, s = r * d and discloses the private key" % (key(x), x.get("ln"), obj["n"]), x.get("ln"))
            else:
                rep.proved("R-INF", fn, inst, desc, "%d coordinate reads, flag looked at first" % len(reads))
    return n
