"""C11 rules from the audit round (replays/C11-hunt).  Each is a structural necessary condition of "releases every thread
and allocation", "terminates for every interleaving" or "fails with an error and leaves nothing behind".

  R-JOIN     the join of a created thread is conditional only on data the JOINER side owns, claimed atomically
  R-ERR      the status of the thread creation reaches the caller
  R-DANGLE   a file-scope pointer that can hold the pool is cleared by the routine that frees the pool
  R-WRAP     the allocation size of the pool is range-tested before the multiplication
  R-DELIVER  a message whose status is discarded carries the direct-delivery flags that make the status irrelevant
  R-STATE    a slot is marked STARTING only from STOP; a worker that published RUNNING re-reads the shutdown latch
"""
from rules import driver, core, r_range, r_mpt
from rules.core import key, const_val, walk
from props import tp


def _written_fields(fn, pname):
    """fields of *pname the function stores to (assignment, ++/--, memset(&p->f), __sync_* on &p->f)"""
    out = {}
    for pos, root, x, ps in fn.nodes():
        tgt = None
        if x.get("k") == "bin" and (x["op"] == "=" or x["op"].endswith("=")) and x["op"] not in ("==", "!=", "<=", ">="):
            tgt = core.strip_casts(x["x"])
        elif x.get("k") == "un" and x["op"] in ("post++", "pre++", "post--", "pre--"):
            tgt = core.strip_casts(x["e"])
        elif x.get("k") == "call" and (x.get("fn") in ("memset", "bzero") or (x.get("fn") or "").startswith("__sync_")) and x.get("args"):
            a = core.strip_casts(x["args"][0])
            if a.get("k") == "un" and a["op"] == "&":
                tgt = core.strip_casts(a["e"])
        if tgt is not None and tgt.get("k") == "mem":
            b = core.base_ref(tgt)
            if b is not None and b["n"] == pname:
                # the field directly on the thread object (tpt->f), not tpt->tp->f
                if core.strip_casts(tgt["b"]).get("k") == "ref":
                    out.setdefault(tgt["f"], x.get("ln"))
    return out


def join_guard_rule(rep, u):
    """pthread_join() is what releases a created thread.  If reaching it depends on a field that the thread itself
    writes on its way out (`state`, `pt_id`), a thread that has already finished is skipped and never joined - every
    shutdown of an idle pool leaks its threads - and two concurrent waiters both pass the test and join the same id.
    The condition must read only joiner-owned data and claim the join atomically."""
    fw, fp = tp.need(u, "tp_shutdown_wait"), tp.need(u, "tp_thread_proc")
    own = _written_fields(fp, fp.params[0]["n"])
    # the thread body casts its void * argument to a local first
    for pos, root, x, ps in fp.nodes():
        if x.get("k") == "decl":
            for v in x["vars"]:
                if "init" in v and core.base_ref(v["init"]) is not None and core.base_ref(v["init"])["n"] == fp.params[0]["n"]:
                    own.update(_written_fields(fp, v["n"]))
    if not own:
        raise driver.AnalysisBroken("tp_thread_proc: no stores to the thread object found")
    n = 0
    loops = fw.loops()
    for pos, root, c, ps in fw.calls({"pthread_join"}):
        n += 1
        rep.functions.add(fw.name)
        inloop = set().union(*[b for h, b in loops.items() if pos[0] in b]) if loops else set()
        reads, atomic = {}, False
        for bid in fw.reachable_blocks():
            cnd = fw.blocks[bid].cond
            if cnd is None or bid not in inloop or not fw.dominates(bid, pos[0]) or bid == pos[0]:
                continue
            # only conditions with one outcome that avoids the join
            if all(pos[0] in fw.reach_from([s_], avoid=[h for h in loops]) for s_ in fw.blocks[bid].rsucc()):
                continue
            for y, _ in walk(cnd):
                if y.get("k") == "mem" and "threads" in key(y):
                    reads.setdefault(y["f"], y.get("ln"))
                if y.get("k") == "call" and (y.get("fn") or "").startswith(("__sync_", "__atomic_")):
                    atomic = True
        desc = "tp_shutdown_wait: whether a created thread is joined does not depend on fields the thread writes while exiting"
        bad = sorted(set(reads) & set(own))
        if bad:
            rep.violated("R-JOIN", fw, "join-guard", desc, "the join is skipped according to '%s' (read at line %s), which tp_thread_proc stores at line %s "
                         "before it returns: a worker that already finished is never joined (tp_destroy of an idle 16-thread pool joins 1 of 16), "
                         "and two waiters both join the same id" % (bad[0], reads[bad[0]], own[bad[0]]), c.get("ln"))
        elif not reads:
            rep.undecided("R-JOIN", fw, "join-guard", desc, "no per-thread condition in front of the join: slots that never had a thread would be joined", c.get("ln"))
        else:
            rep.proved("R-JOIN", fw, "join-guard", desc, "condition reads %s; thread-written fields are %s" % (sorted(reads), sorted(own)), c.get("ln"))
        desc = "tp_shutdown_wait: the join of one thread id is claimed by exactly one waiter"
        (rep.proved if atomic else rep.violated)("R-JOIN", fw, "join-claim", desc, "atomic test-and-set in the condition" if atomic else
                                                 "plain test: two concurrent tp_shutdown_wait()/tp_destroy() callers both call pthread_join on the same id "
                                                 "(the second never returns on glibc)", c.get("ln"))
    return n


def create_status_rule(rep, u):
    fn = tp.need(u, "tp_threads_create")
    rep.functions.add(fn.name)
    n = 0
    for pos, root, c, ps in fn.calls({"pthread_create_eagain"}):
        n += 1
        ids = core.result_locals(fn, {"pthread_create_eagain"})
        ok = any(r.get("e") is not None and any(y.get("k") == "ref" and y.get("id") in ids for y, _ in walk(r["e"])) for _p, r in fn.returns())
        desc = "tp_threads_create: a failed thread creation is reported to the caller"
        (rep.proved if ok else rep.violated)("R-ERR", fn, "create-status", desc, "the status is returned" if ok else
                                             "the status of pthread_create_eagain() only resets the slot: the call returns 0 with fewer threads "
                                             "running than asked for, and round-robin selection keeps handing out the dead slots", c.get("ln"))
    return n


def dangling_global_rule(rep, u):
    """a file-scope pointer that is assigned a pool (from a tp_p parameter) outlives the pool unless the routine that
    frees the pool clears it: the signal handler then calls tp_shutdown() on freed memory."""
    fd = tp.need(u, "tp_destroy")
    n = 0
    holders = {}
    for fn in u.function_list:
        if fn.relfile() != tp.TP_C or not fn.has_cfg:
            continue
        pn = {p["n"] for p in fn.params if "tp_s" in u.tstr(p["t"]) or u.tstr(p["t"]).startswith("tp_p")}
        for pos, root, x, ps in fn.nodes():
            if x.get("k") == "bin" and x["op"] == "=":
                l, r = core.strip_casts(x["x"]), core.strip_casts(x["y"])
                if l.get("k") == "ref" and l.get("dk") in ("global", "slocal") and r.get("k") == "ref" and r["n"] in pn:
                    holders[l["n"]] = (fn.name, x.get("ln"))
    frees = [pos for pos, root, c, ps in fd.calls({"free"})]
    for g, (where, ln) in sorted(holders.items()):
        n += 1
        rep.functions.add(fd.name)
        cleared = [pos for pos, root, x, ps in fd.nodes() if x.get("k") == "bin" and x["op"] == "=" and core.is_ref(core.strip_casts(x["x"]), name=g)
                   and const_val(core.strip_casts(x["y"])) == 0]
        desc = "tp_destroy: the file-scope pool pointer '%s' (set in %s) does not outlive the pool" % (g, where)
        ok = cleared and frees and all(any(c_[0] in fd.reach_from([fd.entry]) and f_[0] in fd.reach_from([c_[0]]) for c_ in cleared) for f_ in frees)
        (rep.proved if ok else rep.violated)("R-DANGLE", fd, "global:%s" % g, desc, "cleared before free()" if ok else
                                             "never cleared: after tp_destroy() a SIGTERM makes tp_signal_handler call tp_shutdown() on the freed pool", ln)
    return n


def alloc_wrap_rule(rep, u):
    fn = tp.need(u, "tp_create")
    n = 0
    for pos, root, c, ps in fn.calls({"calloc", "malloc", "reallocarray", "realloc"}):
        muls = [y for a in c["args"] for y, _ in walk(a) if y.get("k") == "bin" and y["op"] == "*" and
                (const_val(core.strip_casts(y["x"])) is None or const_val(core.strip_casts(y["y"])) is None) and const_val(y) is None]
        if not muls:
            continue
        n += 1
        rep.functions.add(fn.name)
        var = None
        for m in muls:
            for y, _ in walk(m):
                if y.get("k") == "mem":
                    var = y
        desc = "tp_create: the thread count is range-tested before it is multiplied into the allocation size"
        ok = None
        if var is not None:
            for bid, cnd, atom in r_range.guards_for(fn, pos, key(var)):
                has_div = any(y.get("k") == "bin" and y["op"] == "/" for y, _ in walk(cnd))
                big = any((const_val(y) or 0) >= (1 << 31) for y, _ in walk(cnd))
                leaves = any(pos[0] not in fn.reach_from([s_]) for s_ in fn.blocks[bid].rsucc())
                if (has_div or big) and leaves:
                    ok = key(cnd)[:90]
        (rep.proved if ok else rep.violated)("R-WRAP", fn, "alloc-size", desc, ("guard %s" % ok) if ok else
                                             "%s is multiplied by the slot size without a bound: threads_max = SIZE_MAX allocates the bare header and "
                                             "the initialisation loop writes past it" % (key(var) if var is not None else "the count"), c.get("ln"))
    return n


def discarded_send_rule(rep, us, flags):
    """tpt_msg_send() can fail with EAGAIN (pipe full) or EHOSTDOWN (target stopped).  Where the caller discards the status
    the message must still be delivered: TP_MSG_F_FAIL_DIRECT covers the full pipe; TP_MSG_F_FORCE (or a dominating
    tpt_is_running() test of the target) covers the stopped target."""
    n = 0
    for u in us:
        for fn in u.function_list:
            if fn.relfile() not in (tp.TP_C, tp.MSG_C) or not fn.has_cfg:
                continue
            for pos, root, c, ps in fn.calls({"tpt_msg_send"}):
                used = bool(ps) and not all(p.get("k") == "cast" for p in ps)
                if used:
                    continue
                n += 1
                rep.functions.add(fn.name)
                fl = const_val(c["args"][2])
                desc = "%s: the message at line %s whose status is discarded cannot be lost" % (fn.name, c.get("ln"))
                inst = "discarded-send@%s" % key(c["args"][3])[:40]
                if fl is None:
                    rep.undecided("R-DELIVER", fn, inst, desc, "flags not constant", c.get("ln"))
                    continue
                dst = core.base_ref(c["args"][0])
                running = False
                for bid in fn.reachable_blocks():
                    cnd = fn.blocks[bid].cond
                    if cnd is not None and fn.dominates(bid, pos[0]) and bid != pos[0]:
                        for y, _ in walk(cnd):
                            if y.get("k") == "call" and y.get("fn") == "tpt_is_running" and key(y["args"][0]) == key(c["args"][0]):
                                running = True
                miss = []
                if not fl & flags["FAIL_DIRECT"]:
                    miss.append("TP_MSG_F_FAIL_DIRECT (a full queue returns EAGAIN: the target never gets the message - a busy worker with 2048 queued "
                                "messages misses the stop request and tp_destroy() blocks forever)")
                if not (fl & flags["FORCE"]) and not running:
                    miss.append("TP_MSG_F_FORCE or a tpt_is_running() test (a target that has stopped returns EHOSTDOWN: the completion callback of a "
                                "broadcast never runs and its data is leaked)")
                if miss:
                    rep.violated("R-DELIVER", fn, inst, desc, "missing " + "; ".join(miss), c.get("ln"))
                else:
                    rep.proved("R-DELIVER", fn, inst, desc, "flags 0x%x%s" % (fl, ", target tested running" if running else ""), c.get("ln"))
    return n


def slot_state_rule(rep, u, states):
    n = 0
    for fname in ("tp_threads_create", "tp_thread_attach_first"):
        fc = tp.need(u, fname)
        rep.functions.add(fc.name)
        claims = 0
        # an atomic claim: compare-and-swap of ->state from STOP to STARTING in a branch condition
        for pos, root, c, ps in fc.calls():
            nm = c.get("fn") or ""
            if nm.startswith(("__sync_bool_compare_and_swap", "__sync_val_compare_and_swap", "__atomic_compare_exchange")) and \
                    any(y.get("k") == "mem" and y["f"] == "state" for y, _ in walk(c["args"][0])):
                claims += 1
                n += 1
                ok = const_val(c["args"][1]) == states["STOP"] and const_val(c["args"][2]) == states["STARTING"]
                (rep.proved if ok else rep.violated)("R-STATE", fc, "starting-from-stop", "%s: a slot is claimed by one atomic step from STOP to STARTING" % fname,
                                                     nm if ok else "compare-and-swap with other states", c.get("ln"))
        for pos, root, x, ps in fc.nodes():
            if x.get("k") == "bin" and x["op"] == "=" and core.strip_casts(x["x"]).get("k") == "mem" and core.strip_casts(x["x"])["f"] == "state" \
                    and const_val(x["y"]) == states["STARTING"]:
                n += 1
                claims += 1
                loops = fc.loops()
                body = set().union(*[b_ for h, b_ in loops.items() if pos[0] in b_]) if loops else set(fc.reachable_blocks())
                tested = any(fc.blocks[bid].cond is not None and fc.dominates(bid, pos[0]) and bid != pos[0] and
                             any(y.get("k") == "mem" and y["f"] == "state" for y, _ in walk(fc.blocks[bid].cond)) for bid in (body or set(fc.reachable_blocks())))
                desc = "%s: a slot is claimed by one atomic step from STOP to STARTING" % fname
                rep.violated("R-STATE", fc, "starting-from-stop", desc, ("the state is tested and then stored in two steps: two concurrent callers both pass the test and start two OS "
                             "threads in one slot (one of them never gets the stop message, tp_destroy blocks in pthread_join)") if tested else
                             ("no test of the slot's state: a second tp_threads_create() starts a second OS thread in every slot "
                              "(start hooks run twice, three threads outlive tp_destroy of a 3-thread pool)"), x.get("ln"))
        if not claims:
            raise driver.AnalysisBroken("%s: no slot claim found" % fname)
    # only the thread itself (and the roll-back of a failed claim) may declare the slot STOP
    for fn in u.function_list:
        if fn.relfile() != tp.TP_C or not fn.has_cfg or fn.name == "tp_thread_proc":
            continue
        for pos, root, x, ps in fn.nodes():
            if x.get("k") == "bin" and x["op"] == "=" and core.strip_casts(x["x"]).get("k") == "mem" and core.strip_casts(x["x"])["f"] == "state" \
                    and const_val(x["y"]) == states["STOP"]:
                if "->pvt->" in key(x["x"]):
                    continue          # the virtual thread has no procedure of its own: whoever starts / stops the pool owns its state
                claimed_here = any((c.get("fn") or "").startswith(("__sync_bool_compare_and_swap", "__sync_val_compare_and_swap")) for _p, _r, c, _ps in fn.calls()) or \
                    any(y.get("k") == "bin" and y["op"] == "=" and core.strip_casts(y["x"]).get("k") == "mem" and core.strip_casts(y["x"])["f"] == "state" and
                        const_val(y["y"]) == states["STARTING"] for _p, _r, y, _ps in fn.nodes())
                n += 1
                rep.functions.add(fn.name)
                desc = "%s: STOP ('the thread is gone') is stored only by the thread procedure or as the roll-back of this function's own claim" % fn.name
                (rep.proved if claimed_here else rep.violated)("R-STATE", fn, "stop-only-by-owner", desc, "roll-back of the claim made here" if claimed_here else
                                                               "stores STOP for a thread that still has to leave the loop, drain and run its stop hook: tp_shutdown_wait trusts STOP, "
                                                               "tp_destroy frees the pool and the hook runs on freed memory", x.get("ln"))
    fp = tp.need(u, "tp_thread_proc")
    rep.functions.add(fp.name)
    for pos, root, x, ps in fp.nodes():
        if x.get("k") == "bin" and x["op"] == "=" and core.strip_casts(x["x"]).get("k") == "mem" and core.strip_casts(x["x"])["f"] == "state" \
                and const_val(x["y"]) == states["RUNNING"]:
            n += 1
            later = [p2 for p2, r2, y, _ in fp.nodes() if y.get("k") == "mem" and y["f"] == "shutdown" and p2 != pos and fp.pos_dominates(pos, p2)]
            desc = "tp_thread_proc: after publishing RUNNING the worker re-reads the shutdown latch (tp_shutdown only messages threads it sees running)"
            (rep.proved if later else rep.violated)("R-STATE", fp, "recheck-after-publish", desc, "read after the store" if later else
                                                    "the latch is only read before the thread is visible: a tp_shutdown() between the test and the store "
                                                    "neither stops nor messages this thread, and tp_destroy() waits for it forever", x.get("ln"))
    return n


FD_SOURCES = {"timerfd_create", "pidfd_open", "epoll_create1", "epoll_create", "socket", "open", "accept4", "eventfd", "kqueue"}


def fd_sentinel_rule(rep, u):
    """0 is a valid descriptor (a process started without stdin gets it from the next timerfd_create).  A variable that
    receives a descriptor-producing call is tested for "no descriptor" against -1 only: a test against 0 makes the pool
    refuse to delete (ENOENT) a timer whose descriptor is 0 and leaves it open and firing after tp_destroy()."""
    n = 0
    for fn in u.function_list:
        if fn.relfile() != tp.TP_C or not fn.has_cfg:
            continue
        ids = core.result_locals(fn, FD_SOURCES)
        if not ids:
            continue
        for pos, root, x, ps in fn.nodes():
            if not (x.get("k") == "bin" and x["op"] in ("==", "!=")):
                continue
            a, b = core.strip_casts(x["x"]), core.strip_casts(x["y"])
            for var, cst in ((a, b), (b, a)):
                if var.get("k") == "ref" and var.get("id") in ids and const_val(cst) is not None:
                    n += 1
                    rep.functions.add(fn.name)
                    inst = "fd-sentinel:%s@%d" % (var["n"], n)
                    desc = "%s: descriptor variable '%s' is compared with -1 as its 'none' value" % (fn.name, var["n"])
                    if const_val(cst) == 0:
                        rep.violated("R-FDZERO", fn, inst, desc, "compared with 0 at line %s: descriptor 0 is valid (close(0); TP_EV_TIMER add; del -> ENOENT, "
                                     "the timer keeps firing and stays open after tp_destroy)" % x.get("ln"), x.get("ln"))
                    else:
                        rep.proved("R-FDZERO", fn, inst, desc, "compared with %d" % const_val(cst), x.get("ln"))
    return n


def shutdown_done_rule(rep, u):
    """tp_destroy() from one thread while another is still inside tp_shutdown(): the latch makes destroy's own shutdown a
    no-op, nothing may need joining, and the pool is freed under the first caller.  tp_shutdown() publishes its completion as
    its last access to the pool and tp_shutdown_wait() waits for it before anything else."""
    fs, fw = tp.need(u, "tp_shutdown"), tp.need(u, "tp_shutdown_wait")
    rep.functions.update([fs.name, fw.name])
    done = None
    for pos, root, x, ps in fs.nodes():
        if x.get("k") == "bin" and x["op"] == "=" and core.strip_casts(x["x"]).get("k") == "mem" and const_val(x["y"]) not in (None, 0) and \
                core.base_ref(x["x"]) is not None and core.base_ref(x["x"]).get("dk") == "parm":
            f = core.strip_casts(x["x"])["f"]
            # last access: no other statement of the function follows it
            later = [p2 for p2, r2, y, _ in fs.nodes() if fs.pos_dominates(pos, p2) and p2 != pos and y.get("k") in ("call", "bin")]
            if not later:
                done = f
    waits = False
    joins = [pos for pos, root, c, ps in fw.calls({"pthread_join"})]
    if done is not None and joins:
        for h, body in fw.loops().items():
            cnd = fw.blocks[h].cond
            if cnd is not None and any(y.get("k") == "mem" and y["f"] == done for y, _ in walk(cnd)) and fw.dominates(h, joins[0][0]):
                waits = True
    desc = "tp_shutdown publishes its completion as its last access to the pool and tp_shutdown_wait waits for it before joining"
    (rep.proved if waits else rep.violated)("R-LATCH", fw, "shutdown-completed", desc, "field '%s'" % done if waits else
                                            "no completion flag: tp_destroy() by a second thread frees the pool while the first is still in the virtual thread's stop hook "
                                            "(heap use after free in tp_shutdown)")
    return 1


def pvt_drain_rule(rep, us):
    from props import c11
    utp, um = us[tp.TP_C], us[tp.MSG_C]
    g = c11.call_graph([utp, um])
    fw = tp.need(utp, "tp_shutdown_wait")
    readers = {f for f in g if "tpt_msg_recv_and_process" in c11.reach(g, f)}
    joins = [pos for pos, root, c, ps in fw.calls({"pthread_join"})]
    ok = False
    for pos, root, c, ps in fw.calls(readers):
        if any("pvt" in key(a) for a in c["args"]) and joins and pos[0] not in set().union(*fw.loops().values()) and \
                all(fw.pos_dominates(pos, rp) for rp in r_mpt.success_returns(fw) if rp[0] in fw.reach_from([joins[0][0]])):
            ok = True
    desc = "tp_shutdown_wait: the virtual thread's queue is read once more after the workers are gone"
    (rep.proved if ok else rep.violated)("R-DRAIN", fw, "pvt-drain-after-join", desc, "" if ok else
                                         "nobody reads the virtual thread's queue at shutdown: a message accepted for it (send = 0) while the worker was busy never runs "
                                         "and its memory leaks; tp_destroy returns 0")
    return 1


def fd_packing_rule(rep):
    """the descriptor is kept in tpdata so that an all-zero tpdata means "none": the getter applied to 0 gives the 'none'
    value the code compares with (-1), and storing 'none' gives back 0 - whatever packing is used"""
    pr = tp.probe(tp.TP_C, {"GET0": "(unsigned long long)(long long)TPDATA_TFD_GET(0ull)"}, "probe:tfd-none")
    txt = "static unsigned long long lcb_x;"
    v = pr.get("GET0")
    ok = v is not None and (v == (1 << 64) - 1)
    (rep.proved if ok else rep.violated)("R-FDZERO", "", "packing-none-is-minus-one", "TPDATA_TFD_GET(0) is -1: an empty record has no descriptor, descriptor 0 is representable",
                                         "" if ok else "TPDATA_TFD_GET(0) = %s: the code compares with -1, so an empty record would name a descriptor" % v,
                                         file=tp.TP_C, unit="probe:tfd-none")
    return 1


def last_access_rule(rep, u, states):
    """tp_shutdown_wait()/tp_destroy() take STOP for "this thread will not touch the pool again": in the thread procedure the
    store of STOP is the last access through the thread object"""
    fp = tp.need(u, "tp_thread_proc")
    obj = None
    for pos, root, x, ps in fp.nodes():
        if x.get("k") == "decl":
            for v in x["vars"]:
                if "init" in v and core.base_ref(v["init"]) is not None and core.base_ref(v["init"])["n"] == fp.params[0]["n"]:
                    obj = v["n"]
    obj = obj or fp.params[0]["n"]
    n = 0
    for pos, root, x, ps in fp.nodes():
        if x.get("k") == "bin" and x["op"] == "=" and core.strip_casts(x["x"]).get("k") == "mem" and core.strip_casts(x["x"])["f"] == "state" and \
                const_val(x["y"]) == states["STOP"]:
            # the final one: a return follows without a branch
            later = [y for p2, r2, y, _ in fp.nodes() if y.get("k") == "ref" and y["n"] == obj and fp.pos_dominates(pos, p2) and p2 != pos]
            if not any(fp.pos_dominates(pos, rp) for rp, _r in fp.returns()):
                continue
            n += 1
            # failure exits before the loop (state rolled back, then return) have no later access either
            (rep.proved if not later else rep.violated)("R-STATE", fp, "stop-is-last-access#%d" % n, "tp_thread_proc: nothing is accessed through the thread object after STOP is stored",
                                                        "" if not later else "the object is used again at line %s after STOP: a waiter that saw STOP may already have freed the pool" % later[0].get("ln"), x.get("ln"))
    return n


def detach_wake_rule(rep, u, states, fname="tp_thread_dettach"):
    """a thread told to leave by ANOTHER thread must be woken: an idle worker sleeps in epoll_wait(-1) and never looks at the
    state word (tp_shutdown skips it as 'not running', tp_shutdown_wait then joins it forever).  The bare store of STOPING
    is reached only when the caller is the thread itself or after a message send to it was tried."""
    fn = tp.need(u, fname)
    rep.functions.add(fname)
    plain = [(pos, x) for pos, root, x, ps in fn.nodes() if x.get("k") == "bin" and x["op"] == "=" and core.strip_casts(x["x"]).get("k") == "mem" and
             core.strip_casts(x["x"])["f"] == "state" and const_val(x["y"]) == states["STOPING"]]
    cas = [(pos, c) for pos, root, c, ps in fn.calls() if "compare_and_swap" in (c.get("fn") or "") and len(c["args"]) >= 3 and const_val(c["args"][2]) == states["STOPING"] and
           "state" in key(c["args"][0])]
    stores = plain + cas
    if not stores:
        raise driver.AnalysisBroken("%s: store of the STOPING state not found" % fname)
    n = 1
    # the target sets STOP itself as its last access: a plain store after a test of the state can land behind it and leave
    # the slot in STOPING with no thread (attach refused for ever, tp_destroy polls for ever): the transition is a CAS from a live state
    desc = "%s: another thread's state goes to STOPING only by compare-and-swap from a live state" % fname
    (rep.violated if plain else rep.proved)("R-WAKE", fn, "detach-state-cas", desc, "plain store at line %s: two detaches of the same thread - the second lands after the thread wrote STOP, "
                                            "tp_thread_attach_first() then fails for ever and tp_destroy() never returns" % plain[0][1].get("ln") if plain else "%d CAS" % len(cas))
    # the pool virtual thread has no thread behind it: detaching it would take away its stop hook and refuse sends to it
    pv = False
    for bid in fn.reachable_blocks():
        c = fn.blocks[bid].cond
        if c is None:
            continue
        # (one link of a short-circuit chain: before the stores, with an edge that leaves)
        if any(y.get("k") == "mem" and y["f"] == "pvt" for y, _ in walk(c)) and all(p_[0] in fn.reach_from([bid]) for p_, _x in stores) and \
           any(not any(p_[0] in fn.reach_from([s_]) or p_[0] == s_ for p_, _x in stores) for s_ in fn.blocks[bid].rsucc()):
            pv = True
    n += 1
    (rep.proved if pv else rep.violated)("R-WAKE", fn, "detach-refuses-virtual-thread", "%s: the pool virtual thread is refused" % fname, "" if pv else
                                         "tp_thread_dettach(tp_thread_get_pvt(tp)) puts the virtual thread into STOPING: tp_shutdown then skips its stop hook (start x1, stop x0)")
    for pos, x in stores:
        n += 1
        selftest = False
        for bid in fn.reachable_blocks():
            c = fn.blocks[bid].cond
            if c is None or not fn.dominates(bid, pos[0]) or bid == pos[0]:
                continue
            if any(y.get("k") == "call" and y.get("fn") in ("tpt_get_current", "pthread_self", "pthread_equal") for y, _ in walk(c)):
                selftest = True
        sent = any(fn.pos_dominates(p2, pos) or (p2[0] != pos[0] and pos[0] in fn.reach_from([p2[0]])) for p2, _r, c2, _ps in fn.calls({"tpt_msg_send"}))
        ok = selftest and sent
        desc = "%s: the STOPING store at line %s is for the calling thread itself, or follows an attempt to wake the target with a message" % (fname, x.get("ln"))
        (rep.proved if ok else rep.violated)("R-WAKE", fn, "detach-wakes-target", desc, "" if ok else
                                             "the state is stored and nothing wakes the worker: tp_thread_dettach(idle worker) from the main thread, then tp_destroy() never returns", x.get("ln"))
    return n
