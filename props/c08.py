"""C08 — ChaCha and GOST 28147-89.

Decided clauses (neither cipher is built or run by the test suite):
  * R-SPEC  ChaCha: sigma/tau, the 64 statements of a double round (operand pattern, rotation 16/12/8/7,
            column then diagonal index tuples), rounds loop step 2, key/counter/IV word positions for 256- and
            128-bit keys, HChaCha input/output words, XChaCha nonce split
  * macro coverage: block ADD/COPY/XOR macros touch each word exactly once with equal indices (byte offset 4k)
  * R-SIB   the three ChaCha block variants are identical modulo the copy/xor primitive and each carries the
            two-word counter; each transform loop calls the variant its alignment predicate allows
  * R-SPEC  GOST 28147: direct/reverse key schedule of the 8-round macros, 3xdirect+reverse / direct+3xreverse /
            2xdirect composition, substitution by byte with rotate-left 11, expansion formula of the 4x256 table,
            S-box rows are permutations
  * R-SIB   aligned and unaligned branches of every GOST bulk routine are equivalent modulo the load/store
            primitive; decryption reads and writes blocks exactly like encryption
  * R-WIPE  cipher contexts are wiped by *_final
Not decided: key stream / cipher text values.
"""
from rules import driver, core, r_wipe, r_mpt
from rules.core import walk, key, const_val
from props import common, fixtures

TRUSTED = ["clang 14 front end + CFG builder", "tool/lcbfacts.cc", "python3"]
CH = "include/crypto/cipher/chacha.h"
GO = "include/crypto/cipher/gost28147.h"


# ------------------------------------------------------------------ canonical forms

def word_ref(e):
    """(base key, index) of a 32-bit word access  base[idx]  through any chain of pointer casts"""
    e = core.strip_casts(e)
    if e is None or e.get("k") != "sub":
        return None
    i = const_val(e["i"])
    b = core.strip_casts(e["b"])
    return (key(b), i) if i is not None else None


def ptr_off(e):
    """(base var name, byte offset) of  p, p + k, (cast)(p + k)"""
    e = core.strip_casts(e)
    if e is None:
        return None
    if e.get("k") == "ref":
        return (e["n"], 0)
    if e.get("k") == "bin" and e["op"] == "+":
        a, b = core.strip_casts(e["x"]), core.strip_casts(e["y"])
        if const_val(b) is not None:
            r = ptr_off(a)
            return (r[0], r[1] + const_val(b)) if r else None
        if const_val(a) is not None:
            r = ptr_off(b)
            return (r[0], r[1] + const_val(a)) if r else None
    if e.get("k") in ("mem",):
        return (key(e), 0)
    if e.get("k") == "un" and e["op"] == "&":
        s = core.strip_casts(e["e"])
        if s.get("k") == "sub" and const_val(s["i"]) is not None:
            return (key(core.strip_casts(s["b"])), const_val(s["i"]) * 4)
    return None


SWAPS = {"ntohl", "htonl", "__bswap_32", "__builtin_bswap32"}


def canon_val(e, env=None):
    """canonical form of a 32-bit value expression"""
    env = env or {}
    e = core.strip_casts(e)
    if e is None:
        return None
    k = e.get("k")
    if k == "call":
        fn = e.get("fn")
        if fn in ("U8TO32_LITTLE",):
            po = ptr_off(e["args"][0])
            return ("LOAD",) + po if po else ("?", key(e))
        if fn in SWAPS:
            return ("SWAP", canon_val(e["args"][0], env))
    if k == "un" and e["op"] == "*":
        po = ptr_off(e["e"])
        return ("LOAD",) + po if po else ("?", key(e))
    if k == "sub":
        w = word_ref(e)
        if w:
            # word index access: base is a pointer variable -> byte offset
            return ("LOAD", w[0], w[1] * (4 if True else 1))
    if k == "ref":
        return env.get(e["n"], ("VAR", e["n"]))
    if k == "bin" and e["op"] == "^":
        return ("XOR", canon_val(e["x"], env), canon_val(e["y"], env))
    return ("?", key(e))


# ------------------------------------------------------------------ ChaCha

QR_IDX = [(0, 4, 8, 12), (1, 5, 9, 13), (2, 6, 10, 14), (3, 7, 11, 15),
          (0, 5, 10, 15), (1, 6, 11, 12), (2, 7, 8, 13), (3, 4, 9, 14)]


def reference_double_round():
    out = []
    for (a, b, c, d) in QR_IDX:
        out += [("add", a, b), ("rot", d, a, 16), ("add", c, d), ("rot", b, c, 12),
                ("add", a, b), ("rot", d, a, 8), ("add", c, d), ("rot", b, c, 7)]
    return out


_TERMS = {}


def _term(*t):
    if t not in _TERMS:
        _TERMS[t] = len(_TERMS)
    return _TERMS[t]


def eval_round_terms(stmts):
    """final symbolic value of the 16 state words after the statements; None if a statement is malformed"""
    w = [_term("x", i) for i in range(16)]
    for st in stmts:
        if st[0] == "add":
            a, b = sorted((w[st[1]], w[st[2]]))
            w[st[1]] = _term("add", a, b)
        elif st[0] == "rot":
            a, b = sorted((w[st[1]], w[st[2]]))
            w[st[1]] = _term("rot", st[3], _term("xor", a, b))
        else:
            return None
    return w


def parse_round_stmt(e):
    """('add', dst, src) | ('rot', dst, other, n) | None"""
    if e.get("k") != "bin":
        return None
    if e["op"] == "+=":
        d, s = word_ref(e["x"]), word_ref(e["y"])
        if d and s and d[0] == s[0]:
            return ("add", d[1], s[1], d[0])
        return None
    if e["op"] == "=":
        d = word_ref(e["x"])
        r = core.strip_casts(e["y"])
        if d and r.get("k") == "bin" and r["op"] == "|":
            l, rr = core.strip_casts(r["x"]), core.strip_casts(r["y"])
            if l.get("k") == "bin" and l["op"] == "<<" and rr.get("k") == "bin" and rr["op"] == ">>":
                n1, n2 = const_val(l["y"]), const_val(rr["y"])
                v1, v2 = core.strip_casts(l["x"]), core.strip_casts(rr["x"])
                if n1 is None or n2 is None or n1 + n2 != 32 or key(v1) != key(v2):
                    return ("badrot", d[1], key(e))
                if v1.get("k") == "bin" and v1["op"] == "^":
                    p, q = word_ref(v1["x"]), word_ref(v1["y"])
                    if p and q and p[0] == d[0] == q[0] and d[1] in (p[1], q[1]):
                        other = q[1] if p[1] == d[1] else p[1]
                        return ("rot", d[1], other, n1, d[0])
    return None


def chacha_rounds(rep, fn, arr_suffix):
    """the rounds loop body of fn equals the reference double round"""
    loops = fn.loops()
    found = False
    for h, body in loops.items():
        stmts = []
        for b in sorted(body, reverse=True):
            for e in fn.blocks[b].elems:
                p = parse_round_stmt(e)
                if p:
                    stmts.append(p)
        if len(stmts) < 8:
            continue
        found = True
        got = [s[:4] if s[0] == "rot" else s[:3] for s in stmts]
        arrs = {s[-1] for s in stmts if s[0] in ("add", "rot")}
        want = reference_double_round()
        desc = "the rounds loop body is one ChaCha double round: 4 column + 4 diagonal quarter-rounds, rotations 16,12,8,7"
        # dataflow equivalence, not statement order: both sequences are evaluated over symbolic words (hash-consed
        # terms, + and ^ commutative); independent quarter-rounds may be reordered or interleaved freely
        tg, tw = eval_round_terms(got), eval_round_terms(want)
        if tg is not None and tg == tw and len(arrs) == 1 and list(arrs)[0].endswith(arr_suffix):
            rep.proved("R-SPEC", fn, "double-round", desc, "%d statements on %s; the 16 output words equal the reference terms" % (len(got), list(arrs)[0]))
        else:
            badw = [i for i in range(16) if tg is None or tg[i] != tw[i]]
            bad = next((i for i, (g, w) in enumerate(zip(got, want)) if g != w), min(len(got), len(want)))
            rep.violated("R-SPEC", fn, "double-round", desc, "output words %s differ from the reference double round; first differing "
                         "statement %d is %s, reference %s (count %d/64)" % (badw[:6], bad, got[bad] if bad < len(got) else None,
                                                                          want[bad] if bad < len(want) else None, len(got)))
        # loop step and bound
        hb = fn.blocks[h]
        c = hb.cond
        step = None
        for b in body:
            for e in fn.blocks[b].elems:
                if e.get("k") == "bin" and e["op"] == "+=" and key(e["x"]) == "i":
                    step = const_val(e["y"])
        okl = c is not None and key(core.strip_imp(c)).replace(" ", "") in ("(i<ctx->rounds)", "(i<rounds)") and step == 2
        (rep.proved if okl else rep.violated)("R-SPEC", fn, "rounds-loop", "the loop runs rounds/2 double rounds (i < rounds; i += 2)",
                                              "cond %s step %s" % (key(c) if c else None, step))
    if not found:
        rep.violated("R-SPEC", fn, "double-round", "rounds loop present", "no loop with quarter-round statements")


def state_assignments(fn, arr_suffix="state"):
    """list of (block, index, canonical rhs) for assignments  X->state[i] = rhs"""
    out = []
    for bid, i, e in fn.roots():
        if e.get("k") == "bin" and e["op"] == "=":
            w = word_ref(e["x"])
            if w and w[0].endswith(arr_suffix):
                r = core.strip_casts(e["y"])
                cv = const_val(r)
                if cv is not None:
                    cr = ("CONST", cv)
                elif r.get("k") == "sub":
                    ww = word_ref(r)
                    cr = ("TBL", ww[0], ww[1]) if ww else ("?", key(r))
                else:
                    cr = canon_val(r)
                out.append((bid, w[1], cr))
    return out


def chacha_setup(rep, u):
    g256 = core.global_value(u, u.globals["chacha_constants_k256"]) if "chacha_constants_k256" in u.globals else None
    g128 = core.global_value(u, u.globals["chacha_constants_k128"]) if "chacha_constants_k128" in u.globals else None
    fk = u.fn("chacha_key_set")
    if fk is None or g256 is None or g128 is None:
        raise driver.AnalysisBroken("chacha anchors vanished")
    sig = [int.from_bytes(b"expand 32-byte k"[i:i + 4], "little") for i in range(0, 16, 4)]
    tau = [int.from_bytes(b"expand 16-byte k"[i:i + 4], "little") for i in range(0, 16, 4)]
    (rep.proved if [int(x) for x in g256] == sig else rep.violated)("R-TBL", fk, "sigma", "256-bit constant is 'expand 32-byte k'")
    (rep.proved if [int(x) for x in g128] == tau else rep.violated)("R-TBL", fk, "tau", "128-bit constant is 'expand 16-byte k'")
    rep.functions.add(fk.name)
    asg = state_assignments(fk)
    arms = {}
    for bid, idx, cr in asg:
        arms.setdefault(bid, {})[idx] = cr
    want256 = {i: ("TBL", "chacha_constants_k256", i) for i in range(4)}
    want256.update({4 + j: ("LOAD", "key", 4 * j) for j in range(8)})
    want128 = {i: ("TBL", "chacha_constants_k128", i) for i in range(4)}
    want128.update({4 + j: ("LOAD", "key", 4 * (j % 4)) for j in range(8)})
    got = list(arms.values())
    ok256 = any(a == want256 for a in got)
    ok128 = any(a == want128 for a in got)
    (rep.proved if ok256 else rep.violated)("R-SPEC", fk, "key256-layout", "256-bit key: words 0-3 sigma, words 4-11 key bytes 0..31 little endian")
    (rep.proved if ok128 else rep.violated)("R-SPEC", fk, "key128-layout", "128-bit key: words 0-3 tau, words 4-7 and 8-11 both key bytes 0..15")
    # which arm is selected: key sizes are accepted in bytes (16, 32) and in bits (128, 256); the 128-bit sizes must reach the
    # tau arm (the 256-bit arm reads key bytes 16..31, which a 16-byte key does not have)
    ksz = fk.params[2]["n"]
    sel = {}
    for v in (16, 32, 128, 256):
        b = fk.entry
        for _ in range(50):
            if b in arms or b is None:
                break
            blk = fk.blocks[b]
            c = blk.cond
            if c is not None and len(blk.succ) == 2:
                atoms = [x for x, _ in walk(c) if x.get("k") == "ref" and x.get("n") == ksz]
                try:
                    t = r_mpt.eval_expr(c, {id(a): v for a in atoms})
                except r_mpt.Unknown:
                    b = None
                    break
                b = blk.succ[0] if t else blk.succ[1]
            else:
                nx = blk.rsucc()
                b = nx[0] if len(nx) == 1 else None
        if b in arms:
            sel[v] = arms[b]
    for v, want, nm_ in ((32, want256, "256-bit"), (256, want256, "256-bit"), (16, want128, "128-bit"), (128, want128, "128-bit")):
        desc = "key size %d selects the %s key layout" % (v, nm_)
        if v not in sel:
            rep.undecided("R-SPEC", fk, "key-size-select:%d" % v, desc, "selection not evaluable")
        elif sel[v] == want:
            rep.proved("R-SPEC", fk, "key-size-select:%d" % v, desc)
        else:
            rep.violated("R-SPEC", fk, "key-size-select:%d" % v, desc, "it reaches the %s arm%s" % (
                "256-bit" if sel[v] == want256 else "128-bit" if sel[v] == want128 else "other",
                ": bytes 16..31 of a 16-byte key are read and sigma is used" if sel[v] == want256 else ""))
    for nm, base, idxs in (("chacha_counter_set", "counter", (12, 13)), ("chacha_iv_set", "iv", (14, 15))):
        f = u.fn(nm)
        if f is None:
            raise driver.AnalysisBroken("anchor %s vanished" % nm)
        rep.functions.add(nm)
        asg = state_assignments(f)
        arms = {}
        for bid, idx, cr in asg:
            arms.setdefault(bid, {})[idx] = cr
        want = {idxs[0]: ("LOAD", base, 0), idxs[1]: ("LOAD", base, 4)}
        wantz = {idxs[0]: ("CONST", 0), idxs[1]: ("CONST", 0)}
        got = list(arms.values())
        (rep.proved if want in got and wantz in got else rep.violated)(
            "R-SPEC", f, "%s-words" % base, "%s occupies state words %d,%d (little endian), zero when absent" % (base, idxs[0], idxs[1]), str(got))
    # hchacha
    fh = u.fn("hchacha")
    rep.functions.add("hchacha")
    asg = state_assignments(fh)
    arms = {}
    for bid, idx, cr in asg:
        arms.setdefault(bid, {})[idx] = cr
    want = {12 + j: ("LOAD", "iv", 4 * j) for j in range(4)}
    (rep.proved if want in arms.values() else rep.violated)("R-SPEC", fh, "hchacha-input", "HChaCha loads the 16 nonce bytes into words 12-15", str(list(arms.values())[:2]))
    outs = {}
    for pos, root, c, ps in fh.calls({"U32TO8_LITTLE"}):
        po = ptr_off(c["args"][0])
        w = word_ref(c["args"][1])
        if po and w:
            outs[po[1]] = w[1]
    wanto = {0: 0, 4: 1, 8: 2, 12: 3, 16: 12, 20: 13, 24: 14, 28: 15}
    (rep.proved if outs == wanto else rep.violated)("R-SPEC", fh, "hchacha-output", "HChaCha outputs words 0-3 and 12-15 (no final addition)", str(outs))
    adds = [e for bid, i, e in fh.roots() if e.get("k") == "bin" and e["op"] == "+=" and word_ref(e["x"]) and word_ref(e["y"]) and
            word_ref(e["x"])[0] != word_ref(e["y"])[0]]
    (rep.proved if not adds else rep.violated)("R-SPEC", fh, "hchacha-no-feedforward", "HChaCha does not add the input state to the result")
    chacha_rounds(rep, fh, "state")
    # xchacha
    fx = u.fn("xchacha_set_key_iv_rounds")
    rep.functions.add(fx.name)
    asg = {idx: cr for bid, idx, cr in state_assignments(fx)}
    okc = all(asg.get(i) == ("TBL", "chacha_constants_k256", i) for i in range(4))
    hc = [c for pos, root, c, ps in fx.calls({"hchacha"})]
    okh = len(hc) == 1 and ptr_off(hc[0]["args"][4]) == ("ctx->state", 16) and ptr_off(hc[0]["args"][2]) == ("iv", 0)
    ivs = [ptr_off(c["args"][1]) for pos, root, c, ps in fx.calls({"chacha_iv_set"})]
    oki = ("iv", 16) in ivs
    (rep.proved if okc and okh and oki else rep.violated)("R-SPEC", fx, "xchacha-split",
                                                          "XChaCha: sigma, key = HChaCha(key, nonce[0..15]) written to words 4-11, IV = nonce[16..23]",
                                                          "consts %s hchacha %s iv %s" % (okc, okh, ivs))


def macro_coverage(rep, u):
    """each block function: ADD32 / COPY / XOR statements touch every word exactly once with equal indices"""
    for nm in ("chacha_block_aligned8", "chacha_block_aligned4", "chacha_block_unaligneg"):
        fn = u.fn(nm)
        if fn is None:
            raise driver.AnalysisBroken("anchor %s vanished" % nm)
        rep.functions.add(nm)
        for bid in fn.reachable_blocks():
            groups = {}
            for e in fn.blocks[bid].elems:
                m = core.macro_chain(e) if e.get("m") else (e.get("m") or [])
                tag = next((x for x in (e.get("m") or []) if x.startswith("CHACHA_BLOCK_")), None)
                if tag is None:
                    continue
                groups.setdefault(tag, []).append(e)
            for tag, elems in groups.items():
                width = 8 if "ALIGN8" in tag else 4
                nwords = 64 // width
                seen = []
                ok = True
                why = ""
                for e in elems:
                    idxs = set()
                    if e.get("k") == "bin":       # dst[i] (op)= f(src[i], x[i])
                        for x, _ in walk(e):
                            if x.get("k") == "sub" and const_val(x["i"]) is not None:
                                idxs.add(const_val(x["i"]) * (u.type(x["t"]).get("size") or 4))
                    elif e.get("k") == "call" and e.get("fn") == "U32TO8_LITTLE":
                        po = ptr_off(e["args"][0])
                        if po:
                            idxs.add(po[1])
                        for x, _ in walk(e["args"][1]):
                            if x.get("k") == "sub" and const_val(x["i"]) is not None:
                                idxs.add(const_val(x["i"]) * 4)
                            if x.get("k") == "call" and x.get("fn") == "U8TO32_LITTLE":
                                p2 = ptr_off(x["args"][0])
                                if p2:
                                    idxs.add(p2[1])
                    if len(idxs) != 1:
                        ok = False
                        why = "a line mixes byte offsets %s (line %s)" % (sorted(idxs), e.get("ln"))
                        break
                    seen.append(list(idxs)[0])
                if ok and sorted(seen) != [width * i for i in range(nwords)]:
                    ok = False
                    why = "offsets covered: %s" % sorted(seen)
                desc = "%s touches each of the %d words exactly once with the same index on every operand" % (tag, nwords)
                (rep.proved if ok else rep.violated)("R-SPEC", fn, tag, desc, why)


def block_siblings(rep, u):
    def skeleton(fn):
        sk = []
        for bid in sorted(fn.reachable_blocks(), reverse=True):
            blk = fn.blocks[bid]
            for e in blk.elems:
                tags = [x for x in (e.get("m") or []) if x.startswith("CHACHA_BLOCK_COPY") or x.startswith("CHACHA_BLOCK_XOR")]
                if tags:
                    t = "COPY-OUT" if tags[0].startswith("CHACHA_BLOCK_COPY") and "dst" in key(e)[:40] else \
                        ("COPY-IN" if tags[0].startswith("CHACHA_BLOCK_COPY") else "XOR")
                    if not sk or sk[-1] != t:
                        sk.append(t)
                else:
                    sk.append(key(e))
            if blk.term:
                sk.append("T:" + blk.term["k"])
        return sk
    names = ("chacha_block_aligned8", "chacha_block_aligned4", "chacha_block_unaligneg")
    sks = {n: skeleton(u.fn(n)) for n in names}
    ref = sks[names[1]]
    for n in names:
        same = sks[n] == ref
        desc = "%s equals chacha_block_aligned4 modulo the copy/xor primitive (rounds, feed-forward add, counter increment)" % n
        if same:
            rep.proved("R-SIB", u.fn(n), "block-skeleton", desc, "%d skeleton items" % len(ref))
        else:
            d = next((i for i, (a, b) in enumerate(zip(sks[n], ref)) if a != b), min(len(ref), len(sks[n])))
            rep.violated("R-SIB", u.fn(n), "block-skeleton", desc, "first difference at item %d: %s vs %s" % (
                d, sks[n][d][:80] if d < len(sks[n]) else None, ref[d][:80] if d < len(ref) else None))
        # counter carry
        fn = u.fn(n)
        inc12 = [pos for pos, root, x, ps in fn.nodes() if core.step_of(x) and core.step_of(x)[1] == 1 and word_ref(core.step_of(x)[0]) == ("ctx->state", 12)]
        inc13 = [pos for pos, root, x, ps in fn.nodes() if core.step_of(x) and core.step_of(x)[1] == 1 and word_ref(core.step_of(x)[0]) == ("ctx->state", 13)]
        ok = len(inc12) == 1 and len(inc13) == 1 and fn.pos_dominates(inc12[0], inc13[0])
        if ok:
            # word 13 incremented iff word 12 wrapped to 0
            g = False
            for bid, c, atom in r_mpt.branches_with(fn, lambda x, ps: word_ref(x) == ("ctx->state", 12)):
                s0, k0 = r_mpt.edge_for_value(fn, bid, c, atom, 0)
                s1, k1 = r_mpt.edge_for_value(fn, bid, c, atom, 1)
                if k0 and k1 and r_mpt.can_reach(fn, s0, inc13, avoid=[bid]) and not r_mpt.can_reach(fn, s1, inc13, avoid=[bid]):
                    g = True
            ok = g
        (rep.proved if ok else rep.violated)("R-SPEC", fn, "counter-carry", "the 64-bit block counter carries from word 12 into word 13 exactly when word 12 wraps to 0")
    # transform loops call the variant the predicate allows
    ft = u.fn("chacha_blocks_transform")
    rep.functions.add(ft.name)
    for variant, mask in (("chacha_block_aligned8", 7), ("chacha_block_aligned4", 3)):
        calls = [pos for pos, root, c, ps in ft.calls({variant})]
        if not calls:
            rep.violated("R-SIB", ft, "dispatch:" + variant, "variant is used", "no call")
            continue
        ok = True
        for pname in ("src", "dst"):
            found = False
            for bid, c, atom in r_mpt.branches_with(ft, lambda x, ps, pname=pname, mask=mask: x.get("k") == "bin" and x["op"] == "&" and
                                                    const_val(x["y"]) == mask and pname in key(x["x"])):
                s_al, k1 = r_mpt.edge_for_value(ft, bid, c, atom, 0)
                s_un, k2 = r_mpt.edge_for_value(ft, bid, c, atom, 1)
                if k1 and k2 and not r_mpt.can_reach(ft, s_un, calls, avoid=[bid]) and r_mpt.can_reach(ft, s_al, calls, avoid=[bid]):
                    found = True
            ok = ok and found
        (rep.proved if ok else rep.violated)("R-SIB", ft, "dispatch:" + variant,
                                             "%s is reached only when both src and dst satisfy its alignment (mask %d)" % (variant, mask))


# ------------------------------------------------------------------ GOST 28147

def gost_rounds(rep, u):
    def rounds_of(fn):
        seq = []
        for bid, i, e in fn.roots():
            if e.get("k") == "bin" and e["op"] == "^=":
                r = core.strip_casts(e["y"])
                if r.get("k") == "call" and r.get("fn") == "gost28147_block32":
                    a = core.strip_casts(r["args"][1])
                    if a.get("k") == "bin" and a["op"] == "+":
                        kidx = None
                        other = None
                        for s_ in (a["x"], a["y"]):
                            w = word_ref(s_)
                            if w and w[0].endswith("key"):
                                kidx = w[1]
                            else:
                                other = key(core.strip_casts(s_))
                        seq.append((key(e["x"]), other, kidx, (e.get("m") or [None])[0]))
        return seq
    spec = {"gost28147_block_encrypt": list(range(8)) * 3 + list(range(7, -1, -1)),
            "gost28147_block_decrypt": list(range(8)) + list(range(7, -1, -1)) * 3,
            "gost28147_mac_block": list(range(8)) * 2}
    for nm, keys in spec.items():
        fn = u.fn(nm)
        if fn is None:
            raise driver.AnalysisBroken("anchor %s vanished" % nm)
        rep.functions.add(nm)
        seq = rounds_of(fn)
        got = [s[2] for s in seq]
        alt = all(seq[i][0] == seq[i + 1][1] and seq[i][1] == seq[i + 1][0] for i in range(len(seq) - 1)) if seq else False
        first_ok = bool(seq) and (("n2" in seq[0][0] and "n1" in seq[0][1]) or ("mac[1]" in seq[0][0] and "mac[0]" in seq[0][1]))
        desc = "%s: %d Feistel rounds with key order %s..., halves alternating, starting with N2 ^= f(N1 + K0)" % (nm, len(keys), keys[:9])
        if got == keys and alt and first_ok:
            rep.proved("R-SPEC", fn, "round-schedule", desc)
        else:
            rep.violated("R-SPEC", fn, "round-schedule", desc, "key order %s alternating=%s first=%s" % (got, alt, first_ok))
        if nm != "gost28147_mac_block":
            outs = {}
            for bid, i, e in fn.roots():
                if e.get("k") == "bin" and e["op"] == "=" and core.strip_casts(e["x"]).get("k") == "un":
                    outs[key(core.strip_casts(e["x"])["e"])] = key(e["y"])
            ok = outs == {"dst_n1": "n2", "dst_n2": "n1"}
            (rep.proved if ok else rep.violated)("R-SPEC", fn, "final-swap", "the halves are exchanged on output (no swap after the last round)", str(outs))


def chacha_stream_coverage(rep, u):
    """chacha_str_data_crypt: for each class of call (saved key stream none / partial / larger than the request; source buffer
    present or NULL; request shorter or longer than a block) the bytes written are exactly dst[0 .. bytes) in order, each
    once, and the source is read at the same offsets (transfer coverage by partial evaluation)"""
    from rules import r_stride, r_mpt
    from rules.core import strip_casts
    fn = u.fn("chacha_str_data_crypt")
    if fn is None:
        raise driver.AnalysisBroken("anchor chacha_str_data_crypt vanished")
    rep.functions.add(fn.name)
    probe = u.records.get("chacha_context_str_s") or {}
    CTX, SRC, DST = 0x10000, 0x20000, 0x30000
    n = 0
    bad = None
    undec = None
    for ks_len, bytes_, have_src in [(a, b, c) for a in (0, 10) for b in (5, 10, 70, 139) for c in (0, 1)]:
        pe = r_stride.PE(u)
        bind = {"ctx": CTX, "ctx->ks_len": ks_len, "src": SRC if have_src else 0, "bytes": bytes_, "dst": DST}
        ev, ret = pe.trace(fn, bind, max_steps=20000)
        if isinstance(ret, str):
            undec = undec or "ks_len=%d bytes=%d src=%s: %s" % (ks_len, bytes_, "buf" if have_src else "NULL", ret)
            continue
        n += 1
        KS = None
        writes = []      # (dst offset, len, source: ('src', off) | ('ks', off) | None)

        def val(x, b):
            return r_mpt.eval_expr(x, {}, pe._hook(b, {}))
        ok = True
        for e, b in ev:
            for x, ps in walk(e):
                try:
                    if x.get("k") == "bin" and x["op"] == "=" and strip_casts(x["x"]).get("k") in ("sub", "un"):
                        a = pe._addr(strip_casts(x["x"]), lambda z: val(z, b))
                        if DST <= a < DST + 0x1000:
                            so = None
                            for y, _ in walk(x["y"]):
                                if y.get("k") in ("sub", "un") and y is not x["y"] or y.get("k") == "sub":
                                    try:
                                        sa = pe._addr(strip_casts(y), lambda z: val(z, b))
                                        if SRC <= sa < SRC + 0x1000:
                                            so = ("src", sa - SRC)
                                    except (r_mpt.Unknown, KeyError, TypeError):
                                        pass
                            writes.append((a - DST, 1, so))
                    elif x.get("k") == "call" and x.get("fn") == "memcpy":
                        d_, s_, l_ = val(x["args"][0], b), val(x["args"][1], b), val(x["args"][2], b)
                        if DST <= d_ < DST + 0x1000:
                            writes.append((d_ - DST, l_, ("src", s_ - SRC) if SRC <= s_ < SRC + 0x1000 else ("ks", None)))
                    elif x.get("k") == "call" and x.get("fn") == "chacha_blocks_transform":
                        s_, c_, d_ = val(x["args"][1], b), val(x["args"][2], b), val(x["args"][3], b)
                        if DST <= d_ < DST + 0x1000:
                            writes.append((d_ - DST, 64 * c_, ("src", s_ - SRC) if have_src else None))
                            if have_src and not (SRC <= s_ < SRC + 0x1000):
                                ok = False
                            if not have_src and s_ != 0:
                                ok = False
                except (r_mpt.Unknown, KeyError, TypeError):
                    undec = undec or "an address in the trace (line %s) could not be evaluated" % x.get("ln")
        # the tail block is transformed in the context's buffer and copied out; its source (when present) was copied in
        cover = []
        pos = 0
        writes.sort(key=lambda w: (w[0], -w[1]))
        prob = None
        for off, ln_, so in writes:
            if off != pos:
                prob = "bytes %d..%d of the output are %s" % (min(pos, off), max(pos, off) - 1, "never written" if off > pos else "written twice")
                break
            if so is not None and so[0] == "src" and so[1] is not None and so[1] != off:
                prob = "output offset %d is produced from source offset %d" % (off, so[1])
                break
            pos = off + ln_
        if prob is None and pos != bytes_:
            prob = "%d of %d output bytes are written" % (pos, bytes_)
        if prob or not ok:
            bad = bad or "ks_len=%d bytes=%d src=%s: %s" % (ks_len, bytes_, "buffer" if have_src else "NULL", prob or "block transform source pointer")
    desc = "chacha_str_data_crypt writes exactly dst[0..bytes) once, in order, from the matching source offsets, in every call class"
    if bad:
        rep.violated("R-SPEC", fn, "stream-coverage", desc, bad)
    elif undec:
        rep.undecided("R-SPEC", fn, "stream-coverage", desc, undec)
    else:
        rep.proved("R-SPEC", fn, "stream-coverage", desc, "%d call classes (saved key stream 0/10, request 5/10/70/139 bytes, source NULL/buffer)" % n)
    return n


def gost_sbox(rep, u, us_small):
    fn = u.fn("gost28147_block32")
    rep.functions.add(fn.name)
    n = 0
    for g in u.global_list:
        if g["n"].endswith("_sbox") and u.type(g["t"]).get("n") == 128:
            v = core.global_value(u, g)
            rows = [v[16 * r:16 * r + 16] for r in range(8)]
            ok = all(sorted(int(x) for x in row) == list(range(16)) for row in rows)
            n += 1
            (rep.proved if ok else rep.violated)("R-TBL", fn, "sbox:" + g["n"], "each of the 8 rows of %s is a permutation of 0..15" % g["n"])
            # values against the reference copy of the standards' tables (refdata/gost28147_sboxes.json, see its provenance)
            import json, os
            ref = json.load(open(os.path.join(driver.VERIF, "refdata", "gost28147_sboxes.json")))["tables"]
            desc = "%s holds the standard's values (RFC 4357 / RFC 7836)" % g["n"]
            if g["n"] not in ref:
                rep.undecided("R-TBL", fn, "sbox-values:" + g["n"], desc, "no reference table for this set")
            else:
                got = [int(x) for x in v]
                diff = [i for i in range(128) if got[i] != ref[g["n"]][i]]
                if diff:
                    rep.violated("R-TBL", fn, "sbox-values:" + g["n"], desc, "row %d column %d holds 0x%x, the standard has 0x%x (%d entries differ)" % (
                        diff[0] // 16, diff[0] % 16, got[diff[0]], ref[g["n"]][diff[0]], len(diff)))
                else:
                    rep.proved("R-TBL", fn, "sbox-values:" + g["n"], desc, "128 entries equal the reference")
    rep.floor("GOST S-box sets", n, 5)
    # expanded-table lookup: sboxx[j][(src >> 8j) & 0xff]
    ret = [r for pos, r in fn.returns()]
    lookups = {}
    for x, ps in walk(ret[0]):
        if x.get("k") == "sub":
            inner = core.strip_casts(x["b"])
            if inner.get("k") == "sub" and key(inner["b"]).endswith("sboxx"):
                j = const_val(inner["i"])
                idx = core.strip_casts(x["i"])
                # evaluate index expression for src = 0x04030201 -> byte j+1
                srcs = [y for y, _ in walk(idx) if y.get("k") == "ref" and y["n"] == "src"]
                try:
                    val = r_mpt.eval_expr(idx, {id(s_): 0x04030201 for s_ in srcs})
                except r_mpt.Unknown:
                    val = None
                lookups[j] = val
    ok = lookups == {0: 1, 1: 2, 2: 3, 3: 4}
    (rep.proved if ok else rep.violated)("R-SPEC", fn, "expanded-lookup", "f(x) = T0[byte0] ^ T1[byte1] ^ T2[byte2] ^ T3[byte3]", str(lookups))
    # expansion formula in gost28147_init: T_k[i] = ROTL11( (S[2k][i & 15] | S[2k+1][i >> 4] << 4) << 8k )
    # evaluated abstractly on the expression tree with a synthetic S-box S[r][c] = (7*c + 3*r + 1) & 15
    fi = u.fn("gost28147_init")
    rep.functions.add(fi.name)

    def S(r, c):
        return (7 * c + 3 * r + 1) & 15

    def rotl(v, n):
        v &= 0xffffffff
        return ((v << n) | (v >> (32 - n))) & 0xffffffff
    okt = 0
    for bid, i, e in fi.roots():
        if e.get("k") == "bin" and e["op"] == "=":
            l = core.strip_casts(e["x"])
            if l.get("k") == "sub" and core.strip_casts(l["b"]).get("k") == "sub" and key(core.strip_casts(l["b"])["b"]).endswith("sboxx"):
                kidx = const_val(core.strip_casts(l["b"])["i"])
                good = True
                for iv_ in (0x00, 0xA5, 0x3C, 0xFF):
                    def hook(n_, rec, iv_=iv_):
                        if n_.get("k") == "ref" and n_["n"] == "i":
                            return iv_
                        if n_.get("k") == "sub" and key(core.strip_casts(n_["b"])) == "sbox":
                            at = rec(n_["i"])
                            return S(at >> 4, at & 15)
                        return None
                    try:
                        got = r_mpt.eval_expr(e["y"], {}, hook) & 0xffffffff
                    except r_mpt.Unknown:
                        good = False
                        break
                    want = rotl((S(2 * kidx, iv_ & 15) | (S(2 * kidx + 1, iv_ >> 4) << 4)) << (8 * kidx), 11)
                    if got != want:
                        good = False
                if good:
                    okt += 1
    (rep.proved if okt == 4 else rep.violated)("R-SPEC", fi, "table-expansion",
                                               "T_k[i] = ROTL11((S[2k][i & 15] | S[2k+1][i >> 4] << 4) << 8k) for k = 0..3", "%d/4 tables match" % okt)
    # small-table variant: rows 0..7 at shifts 0,4,..,28 then ROTL 11
    us = us_small
    fs = us.fn("gost28147_block32")
    rows = []
    for bid, i, e in fs.roots():
        if e.get("k") == "bin" and e["op"] == "^=":
            for x, ps in walk(e["y"]):
                if x.get("k") == "sub" and key(core.strip_casts(x["b"])).endswith("sbox"):
                    ie = core.strip_casts(x["i"])
                    srcs = [y for y, _ in walk(ie) if y.get("k") == "ref" and y["n"] == "src"]
                    try:
                        at = r_mpt.eval_expr(ie, {id(s_): 0x87654321 for s_ in srcs})
                    except r_mpt.Unknown:
                        at = None
                    top = core.strip_casts(e["y"])
                    sh = const_val(top["y"]) if top.get("k") == "bin" and top["op"] == "<<" else None
                    rows.append((at, sh))
    want = [((r << 4) + (r + 1), 4 * r) for r in range(8)]
    rot = [const_val(y["y"]) for pos, r_ in fs.returns() for y, _ in walk(r_) if y.get("k") == "bin" and y["op"] in ("<<", ">>")]
    ok = rows == want and sorted(rot) == [11, 21]
    (rep.proved if ok else rep.violated)("R-SPEC", fs, "small-table-f", "small-table f(x): nibble r through row r placed at bit 4r, then ROTL 11",
                                         "rows %s rot %s" % (rows, rot))


def gost_arm(fn, blocks):
    """canonical description of one loop arm of a bulk routine"""
    call = None
    env = {}
    stores = {}
    for b in sorted(blocks, reverse=True):
        for e in fn.blocks[b].elems:
            if e.get("k") == "call" and (e.get("fn") or "").startswith("gost28147_") and e["fn"] != "gost28147_blocks_transform":
                call = e
                for oi, a in enumerate(e["args"][3:5]):
                    a0 = core.strip_casts(a)
                    if a0.get("k") == "un" and a0["op"] == "&" and core.strip_casts(a0["e"]).get("k") == "ref":
                        env[core.strip_casts(a0["e"])["n"]] = ("OUT", oi)
                    else:
                        po = ptr_off(a)
                        if po:
                            stores[po] = ("OUT", oi)
            elif e.get("k") == "call" and e.get("fn") == "U32TO8_LITTLE":
                po = ptr_off(e["args"][0])
                stores[po] = canon_val(e["args"][1], env)
            elif e.get("k") == "bin" and e["op"] == "=" and core.strip_casts(e["x"]).get("k") == "un" and core.strip_casts(e["x"])["op"] == "*":
                po = ptr_off(core.strip_casts(e["x"])["e"])
                stores[po] = canon_val(e["y"], env)
    if call is None:
        return None
    ins = tuple(canon_val(a) for a in call["args"][1:3])
    return (call["fn"], ins, tuple(sorted(stores.items(), key=str)))


def gost_bulk(rep, u):
    names = ["gost28147_blocks_mac", "gost28147_blocks_mac_be", "gost28147_blocks_encrypt", "gost28147_blocks_encrypt_be",
             "gost28147_blocks_decrypt", "gost28147_blocks_decrypt_be"]
    arms = {}
    for nm in names:
        fn = u.fn(nm)
        if fn is None:
            raise driver.AnalysisBroken("anchor %s vanished" % nm)
        rep.functions.add(nm)
        loops = fn.loops()
        if len(loops) != 2:
            rep.violated("R-SIB", fn, "aligned-vs-unaligned", "two loops (aligned / unaligned)", "%d loops" % len(loops))
            continue
        # aligned loop = the one reachable only when (ptr & 3) == 0
        al = un = None
        for h, body in loops.items():
            isal = False
            for bid, c, atom in r_mpt.branches_with(fn, lambda x, ps: x.get("k") == "bin" and x["op"] == "&" and const_val(x["y"]) == 3):
                s_un, k_ = r_mpt.edge_for_value(fn, bid, c, atom, 1)
                if k_ and h not in fn.reach_from([s_un], avoid=[bid]):
                    isal = True
            if isal:
                al = gost_arm(fn, body)
            else:
                un = gost_arm(fn, body)
        arms[nm] = (al, un)
        desc = "the aligned and the unaligned loop of %s read the same words in the same roles and store the same results" % nm
        if al is not None and al == un:
            rep.proved("R-SIB", fn, "aligned-vs-unaligned", desc, str(al)[:300])
        else:
            rep.violated("R-SIB", fn, "aligned-vs-unaligned", desc, "aligned %s != unaligned %s" % (str(al)[:260], str(un)[:260]))
    # decrypt mirrors encrypt in its I/O convention
    for e_, d_ in (("gost28147_blocks_encrypt", "gost28147_blocks_decrypt"), ("gost28147_blocks_encrypt_be", "gost28147_blocks_decrypt_be")):
        if e_ in arms and d_ in arms and arms[e_][0] and arms[d_][0]:
            ea, da = arms[e_][0], arms[d_][0]
            ok = ea[1:] == da[1:] and ea[0].replace("encrypt", "") == da[0].replace("decrypt", "")
            (rep.proved if ok else rep.violated)("R-SIB", u.fn(d_), "decrypt-io-mirrors-encrypt",
                                                 "%s loads and stores blocks exactly like %s (only the block function differs)" % (d_, e_),
                                                 "" if ok else "%s vs %s" % (str(da)[:200], str(ea)[:200]))


def wipes(rep, uc, ug):
    for u, names in ((uc, ("chacha_final", "chacha_str_final")), (ug, ("gost28147_final", "gost28147_final_be"))):
        for nm in names:
            fn = u.fn(nm)
            if fn is None:
                raise driver.AnalysisBroken("anchor %s vanished" % nm)
            rep.functions.add(nm)
            obj, mention = r_wipe.param_obj(fn, 0)
            r_wipe.check_wipe(rep, fn, u, "context *%s" % fn.params[0]["n"], obj, mention)
    fh = uc.fn("hchacha")

    def obj(e):
        return key(core.strip_casts(e)) == "ctx.state"

    def mention(n):
        return n.get("k") == "mem" and n["f"] == "state" and key(n) == "ctx.state"
    r_wipe.check_wipe(rep, fh, uc, "local ctx.state (key material)", obj, mention)


def init_defines(rep, u, init="gost28147_init", ctxp="ctx", rec="gost28147_context_s", tag=""):
    """every context field (and constant element) that another routine of the header reads before writing is written by
    init on all of its success paths - in this build configuration (a running MAC left over from an earlier use or from
    uninitialised storage otherwise seeds the next one)"""
    fi = u.fn(init)
    if fi is None or rec not in u.records:
        raise driver.AnalysisBroken("anchor %s / %s vanished" % (init, rec))
    rep.functions.add(init)
    fields = [f["n"] for f in u.records[rec]["fields"]]

    def fld(n):
        """(field, const index or '*') of an access ctx->F, ctx->F[c], ctx->F[..][..]"""
        n = core.strip_casts(n)
        idx = []
        while n is not None and n.get("k") == "sub":
            idx.append(const_val(n["i"]))
            n = core.strip_casts(n["b"])
        if n is not None and n.get("k") == "mem" and n.get("rec") == rec:
            return n["f"], (idx[-1] if len(idx) == 1 and idx[-1] is not None else "*")
        return None
    # reads elsewhere
    need_ = {}
    for fn in u.function_list:
        if fn.relfile() != GO or not fn.has_cfg or fn.name == init or fn.name.endswith("self_test"):
            continue
        for pos, root, x, ps in fn.nodes():
            if x.get("k") not in ("mem", "sub"):
                continue
            if ps and ps[-1].get("k") == "sub" and core.strip_casts(ps[-1].get("b")) is x:
                continue                      # inner part of a longer access path
            r = fld(x)
            if r is None:
                continue
            par = ps[-1] if ps else None
            pure_store = par is not None and par.get("k") == "bin" and par["op"] == "=" and core.strip_casts(par["x"]) is x
            if not pure_store:
                need_.setdefault(r, (fn.name, x.get("ln")))
    # writes of init that dominate every success return
    succ = r_mpt.success_returns(fi)
    if not succ:
        raise driver.AnalysisBroken("%s has no success return" % init)
    wrote = set()
    for pos, root, x, ps in fi.nodes():
        tgt = None
        if x.get("k") == "bin" and x["op"] == "=":
            tgt = x["x"]
        elif x.get("k") == "call" and x.get("fn") in ("memcpy", "memset", "memmove", "mem_bzero", "bzero"):
            tgt = x["args"][0]
        if tgt is None:
            continue
        r = fld(tgt)
        if r is None:
            continue
        loops = fi.loops()
        inloop = any(pos[0] in body for body in loops.values())
        dom = all(fi.pos_dominates(pos, sp) for sp in succ) if not inloop else \
            all(all(fi.dominates(h, sp[0]) for sp in succ) for h, body in loops.items() if pos[0] in body)
        if dom:
            wrote.add(r)
    n = 0
    for (f, i), (who, ln) in sorted(need_.items(), key=str):
        n += 1
        ok = (f, i) in wrote or (f, "*") in wrote or (i == "*" and any(w[0] == f for w in wrote))
        desc = "%s%s: %s->%s%s, read by %s (line %s), is defined by every successful %s" % (init, tag, ctxp, f, "" if i == "*" else "[%s]" % i, who, ln, init)
        (rep.proved if ok else rep.violated)("R-INIT", fi, "defined:%s%s%s" % (f, "" if i == "*" else "[%s]" % i, tag), desc,
                                             "" if ok else "no write on the success path in this configuration: the value left in the "
                                             "context by an earlier use (or by the allocator) is used")
    return n


def run(rep, tier):
    specs = [common.hdr_unit("chacha", "crypto/cipher/chacha.h"), common.hdr_unit("gost28147", "crypto/cipher/gost28147.h"),
             common.hdr_unit("gost28147:small", "crypto/cipher/gost28147.h", ("GOST28147_USE_SMALL_TABLES",))]
    us = driver.load_units(specs)
    rep.use_units(us)
    uc, ug, ugs = us["chacha"], us["gost28147"], us["gost28147:small"]
    res = driver.syntax_only([common.hdr_unit("chacha:m32", "crypto/cipher/chacha.h", (), ("-m32",))])
    for (l, ok, e) in res:
        if ok:
            rep.proved("R-CFGX", "", l, "the 32-bit (CHACHA_X32) branch parses", file=CH, unit=l)
        else:
            rep.note("32-bit compile witness unavailable in this image (no 32-bit libc headers): " + e.strip().splitlines()[-1][:120])
    chacha_setup(rep, uc)
    for nm in ("chacha_block_aligned8", "chacha_block_aligned4", "chacha_block_unaligneg"):
        chacha_rounds(rep, uc.fn(nm), "x")
    macro_coverage(rep, uc)
    block_siblings(rep, uc)
    gost_rounds(rep, ug)
    rep.floor("ChaCha stream call classes", chacha_stream_coverage(rep, uc), 12)
    gost_sbox(rep, ug, ugs)
    gost_bulk(rep, ug)
    gost_bulk_small = None
    wipes(rep, uc, ug)
    rep.floor("context fields defined by init", init_defines(rep, ug) + init_defines(rep, ugs, tag=" [small tables]"), 8)
    from rules import r_tbaa
    n_al = 0
    for u_ in (uc, ug, ugs):
        n_al += r_tbaa.check(rep, u_, [f for f in u_.function_list if f.relfile() in (CH, GO)])
    rep.floor("typed objects accessed through a cast pointer", n_al, 4)
    n_bp = 0
    for u_ in (uc, ug, ugs):
        n_bp += r_tbaa.check_byte_param_casts(rep, u_, [f for f in u_.function_list if f.relfile() in (CH, GO)])
    rep.floor("caller buffers accessed through wider types", n_bp, 6)
    n_ak = 0
    for u_ in (uc, ug, ugs):
        n_ak += r_tbaa.check_alias_dropped(rep, u_, [f for f in u_.function_list if f.relfile() in (CH, GO)])
    rep.floor("may_alias pointers handed to callees", n_ak, 4)
    return driver.finish(
        rep, "other",
        "Static analysis of chacha.h and gost28147.h (neither is compiled by the test suite). Decided: ChaCha constants, "
        "quarter-round/double-round structure, key/counter/IV layout, HChaCha/XChaCha wiring, macro word coverage, sibling "
        "agreement of the three block variants with counter carry, alignment dispatch; GOST round/key schedule, f function in "
        "both table builds, table expansion formula, S-box permutations, aligned/unaligned and encrypt/decrypt I/O agreement; "
        "context wipes. NOT decided: key-stream and cipher-text values.",
        ["reference structure taken from RFC 8439 / draft-irtf-cfrg-xchacha and GOST 28147-89 (RFC 5830)"], TRUSTED)


def selftest():
    from rules import r_tbaa
    u = fixtures.load("tbaa.c")
    rep = driver.Report("fixture", "quick")
    r_tbaa.check(rep, u, [f for f in u.function_list if f.name.startswith("fx_")])
    r_tbaa.check_record_casts(rep, u, [f for f in u.function_list if f.name.startswith("fx_reccast")])
    fixtures.expect(rep, ["fx_copy_bad", "fx_pun_bad", "fx_reccast_bad"], ["fx_copy_ok", "fx_bytes_ok", "fx_param_ok", "fx_reccast_ok"], "R-TBAA")
