"""C16 rules from the audit round (replays/C16-hunt) - structural necessary conditions of "each reported once", "re-armed
only on continue", "no callback after stop".

  R-STOP     tp_task_stop removes the timer registration whatever the (user-settable) timeout field says now
  R-FLAGS    every (re-)registration of the task's own event passes the task's event flags (the pool stores the flags it is
             given as the registration's mode: flags 0 turns a DISPATCH task into a persistent level-triggered one)
  R-ARM      the timer armed after a callback uses the call that names the pool thread (the record may never have been added)
  R-LIVE     the event error returned by the pre-handler is still available when errno of the transfer is filtered to 0
  R-SEEK     a positional transfer (pread/pwrite) on a pollable descriptor has the ESPIPE fallback
  R-CLOBBER  the address cursor of the connect-ex task survives the call that re-arms the task
"""
from rules import driver, core, r_mpt
from rules.core import key, const_val, walk
from props import tp


def _timer_off_calls(fn, vals):
    """calls that remove or disable the timer registration"""
    out = []
    for pos, root, c, ps in fn.calls():
        nm = c.get("fn") or ""
        if not nm.startswith("tpt_ev_") or not c.get("args"):
            continue
        if "_del_" in nm and const_val(c["args"][0]) == vals["TP_EV_TIMER"]:
            out.append((pos, c))
        elif "enable" in nm and const_val(c["args"][0]) == 0 and len(c["args"]) > 1 and const_val(c["args"][1]) == vals["TP_EV_TIMER"] and \
                core.strip_casts(c["args"][1]).get("k") != "mem":
            out.append((pos, c))
    return out


def stop_timer_rule(rep, u, vals):
    n = 0
    for fn in u.function_list:
        if fn.relfile() != tp.TASK_C or not fn.has_cfg:
            continue
        n += _stop_timer_in(rep, fn, vals)
    return n


def _stop_timer_in(rep, fn, vals):
    n = 0
    for pos, c in _timer_off_calls(fn, vals):
        rep.functions.add(fn.name)
        n += 1
        conds = []
        for bid in fn.reachable_blocks():
            cnd = fn.blocks[bid].cond
            if cnd is None or bid == pos[0] or not fn.dominates(bid, pos[0]):
                continue
            if all(pos[0] in fn.reach_from([s_]) for s_ in fn.blocks[bid].rsucc()):
                continue
            for y, _ in walk(cnd):
                if y.get("k") == "mem" and y["f"] == "timeout":
                    conds.append(y.get("ln"))
        desc = "%s: the timer registration is switched off whatever the current value of the timeout field" % fn.name
        inst = "timer-del-unconditional" if fn.name == "tp_task_stop" else "timer-off-unconditional#%d" % n
        if conds:
            rep.violated("R-STOP", fn, inst, desc, "switched off only while ->timeout != 0 (line %s), but tp_task_timeout_set(0) "
                         "leaves an armed timer in place: ETIMEDOUT is delivered although the task has no timeout any more "
                         "(after tp_task_stop: a callback after stop, after tp_task_destroy: use after free)" % conds[0], c.get("ln"))
        else:
            rep.proved("R-STOP", fn, inst, desc, "", c.get("ln"))
    return n


def own_event_flags_rule(rep, u):
    n = 0
    for fn in u.function_list:
        if fn.relfile() != tp.TASK_C or not fn.has_cfg:
            continue
        for pos, root, c, ps in fn.calls():
            nm = c.get("fn") or ""
            if not (nm.startswith("tpt_ev_") and ("enable" in nm)):
                continue
            # the event argument is the task's own event field (not the timer constant)
            evs = [a for a in c["args"] if core.strip_casts(a).get("k") == "mem" and core.strip_casts(a)["f"] == "event"]
            if not evs:
                continue
            n += 1
            rep.functions.add(fn.name)
            has_flags = any(core.strip_casts(a).get("k") == "mem" and core.strip_casts(a)["f"] == "event_flags" for a in c["args"])
            desc = "%s: the (re-)registration of the task's own event at line %s carries the task's event flags" % (fn.name, c.get("ln"))
            inst = "own-event-flags@%s#%d" % (nm, n)
            if has_flags:
                rep.proved("R-FLAGS", fn, inst, desc, nm, c.get("ln"))
            else:
                rep.violated("R-FLAGS", fn, inst, desc, "%s passes flags 0: the pool stores them as the registration's mode, so after the first re-arm a "
                             "TP_F_DISPATCH task is persistent and level-triggered - a callback that answered EOF is called again without end" % nm, c.get("ln"))
    return n


def timer_arm_rule(rep, u, vals):
    n = 0
    for fname in ("tp_task_handler_post_int", "tp_task_enable"):
        n += _timer_arm_in(rep, tp.need(u, fname), vals)
    return n


def _timer_arm_in(rep, fn, vals):
    rep.functions.add(fn.name)
    n = 0
    for pos, root, c, ps in fn.calls():
        nm = c.get("fn") or ""
        if not nm.startswith("tpt_ev_") or not any(const_val(a) == vals["TP_EV_TIMER"] and core.strip_casts(a).get("k") != "mem" for a in c["args"][:3]):
            continue
        if not any("tp_timer" in key(a) for a in c["args"]):
            continue
        if "_del_" in nm or ("enable" in nm and const_val(c["args"][0]) == 0):
            continue                  # switching off, not arming
        n += 1
        names_thread = any(core.strip_casts(a).get("k") == "mem" and core.strip_casts(a)["f"] == "tpt" for a in c["args"])
        desc = "%s: the timer is armed with the pool thread named explicitly" % fn.name
        if names_thread:
            rep.proved("R-ARM", fn, "timer-arm", desc, nm, c.get("ln"))
        else:
            rep.violated("R-ARM", fn, "timer-arm", desc, "%s relies on tp_timer.tpt, which only tp_task_restart() with a non-zero timeout ever sets: a task "
                         "started with timeout 0 whose callback calls tp_task_timeout_set(100) never gets its ETIMEDOUT (EINVAL is dropped)" % nm, c.get("ln"))
    return n


def event_error_live_rule(rep, u):
    fn = tp.need(u, "tp_task_handler")
    rep.functions.add(fn.name)
    ids = core.result_locals(fn, {"tp_task_handler_pre_int"})
    if not ids:
        raise driver.AnalysisBroken("tp_task_handler: result of tp_task_handler_pre_int not found")
    pre = [pos for pos, root, c, ps in fn.calls({"tp_task_handler_pre_int"})]
    # overwrites of the result variable from errno after the call
    kills = []
    for pos, root, x, ps in fn.nodes():
        if x.get("k") == "bin" and x["op"] == "=" and core.strip_casts(x["x"]).get("k") == "ref" and core.strip_casts(x["x"]).get("id") in ids \
                and pos not in pre and any(core.strip_casts(y).get("k") == "call" and "errno" in (y.get("fn") or "") for y, _ in walk(x["y"])):
            kills.append((pos, x))
    # copies of the result taken right after the call
    copies = set()
    for pos, root, x, ps in fn.nodes():
        if x.get("k") == "bin" and x["op"] == "=" and core.strip_casts(x["y"]).get("k") == "ref" and core.strip_casts(x["y"]).get("id") in ids \
                and core.strip_casts(x["x"]).get("k") == "ref" and any(fn.pos_dominates(p, pos) for p in pre):
            copies.add(core.strip_casts(x["x"]).get("id"))
    n = 0
    for kpos, kx in kills:
        n += 1
        later = [p2 for p2, r2, y, _ in fn.nodes() if y.get("k") == "ref" and y.get("id") in copies and p2[0] in fn.reach_from([kpos[0]]) and p2 != kpos]
        desc = "tp_task_handler: the event error fetched by the pool (SO_ERROR is cleared by fetching it) is still reported when the transfer ends in a filtered errno"
        if later:
            rep.proved("R-LIVE", fn, "event-error-live", desc, "a copy of the pre-handler result is read after the overwrite at line %s" % kx.get("ln"), kx.get("ln"))
        else:
            rep.violated("R-LIVE", fn, "event-error-live", desc, "line %s overwrites the pre-handler's result with errno and no copy is read afterwards: "
                         "ECONNREFUSED on a connected UDP socket arrives as EPOLLERR, recv() says EAGAIN, the filter makes it 0 and the callback is never told" %
                         kx.get("ln"), kx.get("ln"))
    return n


def seek_fallback_rule(rep, u):
    fn = tp.need(u, "tp_task_handler")
    n = 0
    espipe = 29
    pairs = {"pread": "read", "pwrite": "write"}
    for pos, root, c, ps in fn.calls(set(pairs)):
        n += 1
        fb = False
        for p2, r2, c2, _ in fn.calls({pairs[c["fn"]]}):
            # the plain call is control-dependent on a test that mentions ESPIPE and is reached from the positional call
            for bid in fn.reachable_blocks():
                cnd = fn.blocks[bid].cond
                if cnd is not None and fn.dominates(bid, p2[0]) and fn.dominates(pos[0], bid) and any(const_val(y) == espipe for y, _ in walk(cnd)):
                    fb = True
        desc = "tp_task_handler: %s() on the registered descriptor falls back to %s() on ESPIPE" % (c["fn"], pairs[c["fn"]])
        (rep.proved if fb else rep.violated)("R-SEEK", fn, "espipe-fallback:%s" % c["fn"], desc, "" if fb else
                                             "every descriptor epoll accepts (pipe, fifo, tty, socket) is unseekable: the first event ends in "
                                             "callback(ESPIPE, 0 bytes) and tp_task_rw_handler never moves a byte", c.get("ln"))
    return n


def _nonfail(fn):
    """returns that are not a constant error code"""
    return [pos for pos, r in fn.returns() if const_val(r.get("e")) in (None, 0)]


def cursor_clobber_rule(rep, u):
    """tp_task_connect_ex_* keep the index of the address being tried in tot_transfered_size.  A callee that stores a constant
    to that field between two uses resets the cursor: the caller restores it after the call."""
    n = 0
    field = "tot_transfered_size"
    resetters = {}
    for fn in u.function_list:
        if fn.relfile() != tp.TASK_C or not fn.has_cfg:
            continue
        for pos, root, x, ps in fn.nodes():
            if x.get("k") == "bin" and x["op"] == "=" and core.strip_casts(x["x"]).get("k") == "mem" and core.strip_casts(x["x"])["f"] == field \
                    and const_val(x["y"]) is not None and core.base_ref(x["x"]) is not None and core.base_ref(x["x"]).get("dk") == "parm":
                # unconditional: dominates every success return
                if all(fn.pos_dominates(pos, sp) for sp in _nonfail(fn)):
                    resetters[fn.name] = x.get("ln")
    # one level of wrappers
    for fn in u.function_list:
        if fn.relfile() == tp.TASK_C and fn.has_cfg and fn.name not in resetters:
            for pos, root, c, ps in fn.calls(set(resetters)):
                if all(fn.pos_dominates(pos, sp) or sp == pos for sp in _nonfail(fn)) and _nonfail(fn):
                    resetters[fn.name] = c.get("ln")
                    break
    # R-INIT: the byte count a callback reports is ->tot_transfered_size, accumulated since the start call.  A task record is
    # re-used (stop, start again with another window): every successful start - scheduled or with a direct first transfer -
    # begins the count at 0, i.e. the constant store lies on every path to a non-failing return.
    fs = tp.need(u, "tp_task_start_ex")
    rep.functions.add(fs.name)
    desc0 = "tp_task_start_ex: ->%s is set to 0 on every path to a non-failing return (a re-used task starts its byte count afresh)" % field
    start_resets = fs.name in resetters
    if start_resets:
        rep.proved("R-INIT", fs, "start-clears-total", desc0, "constant store at line %s dominates %d non-failing returns" % (resetters[fs.name], len(_nonfail(fs))))
    else:
        cond_stores = [x.get("ln") for pos, root, x, ps in fs.nodes() if x.get("k") == "bin" and x["op"] == "=" and
                       core.strip_casts(x["x"]).get("k") == "mem" and core.strip_casts(x["x"])["f"] == field and const_val(x["y"]) is not None]
        rep.violated("R-INIT", fs, "start-clears-total", desc0, "%s: a restarted task whose earlier window was partly filled reports the old bytes on top of "
                     "the new ones, more than the window holds" % (("the constant store at line %s is not on every path to a non-failing return" % cond_stores[0])
                                                                   if cond_stores else "no constant store to the field is left"), fs.decl_line if hasattr(fs, "decl_line") else None)
    fn = tp.need(u, "tp_task_connect_ex_start")
    rep.functions.add(fn.name)
    uses = [pos for pos, root, y, ps in fn.nodes() if y.get("k") == "mem" and y["f"] == field]
    if not uses:
        raise driver.AnalysisBroken("tp_task_connect_ex_start does not use %s any more" % field)
    for pos, root, c, ps in fn.calls(set(resetters)):
        n += 1
        restored = [p2 for p2, r2, x, _ in fn.nodes() if x.get("k") == "bin" and x["op"] == "=" and core.strip_casts(x["x"]).get("k") == "mem" and
                    core.strip_casts(x["x"])["f"] == field and fn.pos_dominates(pos, p2) and p2 != pos and
                    all(fn.pos_dominates(p2, sp) or not fn.pos_dominates(pos, sp) for sp in [r for r, _ in fn.returns()] if sp[0] in fn.reach_from([pos[0]]))]
        desc = "tp_task_connect_ex_start: the address cursor kept in ->%s survives the re-arming call %s()" % (field, c["fn"])
        if restored:
            rep.proved("R-CLOBBER", fn, "cursor-restored", desc, "stored again after the call", c.get("ln"))
        else:
            rep.violated("R-CLOBBER", fn, "cursor-restored", desc, "%s() sets ->%s = 0 (line %s) and the cursor is not restored: every attempt is "
                         "reported with addr_index 0, addrs[2] is never tried and max_tries never ends the task" % (c["fn"], field, resetters[c["fn"]]), c.get("ln"))
    if not start_resets and n == 0:
        return 1        # the restore obligation has no instance because the start no longer clears: reported above as the violation, not as a broken analysis
    return n


def rearm_mask_rule(rep, u, flags):
    """The pool disarms a TP_F_DISPATCH registration and removes a TP_F_ONESHOT one when it delivers the event.  When the
    handler decides to go on (window unfinished at EAGAIN, or the callback answered CONTINUE), the I/O event is registered
    again in both modes."""
    fn = tp.need(u, "tp_task_handler_post_int")
    rep.functions.add(fn.name)
    need = flags["TP_F_DISPATCH"] | flags["TP_F_ONESHOT"]
    n = 0
    for bid in fn.reachable_blocks():
        cnd = fn.blocks[bid].cond
        if cnd is None:
            continue
        for y, _ in walk(cnd):
            if y.get("k") == "bin" and y["op"] == "&" and any(core.strip_casts(y[s_]).get("k") == "mem" and core.strip_casts(y[s_])["f"] == "event_flags" for s_ in ("x", "y")):
                m = const_val(core.strip_casts(y["x"])) or const_val(core.strip_casts(y["y"])) or 0
                n += 1
                desc = "tp_task_handler_post_int: the I/O event is re-armed in every mode in which the pool switched it off on delivery"
                (rep.proved if m & need == need else rep.violated)("R-REARM", fn, "rearm-mask", desc, "mask 0x%x" % m if m & need == need else
                                                                  "mask 0x%x lacks TP_F_ONESHOT: a one-shot task whose 100-byte window got 50 bytes continues internally, but its "
                                                                  "registration is gone - the second fragment is never read, no callback (or ETIMEDOUT with the data waiting)" % m, y.get("ln"))
    return n


def event_error_priority_rule(rep, u):
    fn = tp.need(u, "tp_task_handler")
    ids = core.result_locals(fn, {"tp_task_handler_pre_int"})
    copies = {}
    for pos, root, x, ps in fn.nodes():
        if x.get("k") == "bin" and x["op"] == "=" and core.strip_casts(x["y"]).get("k") == "ref" and core.strip_casts(x["y"]).get("id") in ids \
                and core.strip_casts(x["x"]).get("k") == "ref":
            copies[core.strip_casts(x["x"]).get("id")] = core.strip_casts(x["x"])["n"]
    n = 0
    for pos, root, x, ps in fn.nodes():
        if x.get("k") == "bin" and x["op"] == "=" and core.strip_casts(x["y"]).get("k") == "ref" and core.strip_casts(x["y"]).get("id") in copies \
                and core.strip_casts(x["x"]).get("k") == "ref" and core.strip_casts(x["x"]).get("id") in ids:
            n += 1
            # the assignment's controlling condition tests the copy (the event error), not the filtered errno
            ctl = [c_ for b, c_ in [(bid, fn.blocks[bid].cond) for bid in fn.reachable_blocks() if fn.blocks[bid].cond is not None and fn.dominates(bid, pos[0]) and bid != pos[0]
                                    and any(pos[0] not in fn.reach_from([s_]) for s_ in fn.blocks[bid].rsucc())]]
            last = ctl[-1] if ctl else None
            on_copy = False
            for b in sorted((bid for bid in fn.reachable_blocks() if fn.blocks[bid].cond is not None and pos[0] in fn.blocks[bid].rsucc()), reverse=True):
                cnd = fn.blocks[b].cond
                if any(y.get("k") == "ref" and y.get("id") in copies for y, _ in walk(cnd)):
                    on_copy = True
            desc = "tp_task_handler: an event error (SO_ERROR fetched by the pool) is what the callback is told, whatever errno the transfer attempt left"
            (rep.proved if on_copy else rep.violated)("R-LIVE", fn, "event-error-priority", desc, "" if on_copy else
                                                      "the event error is used only when the transfer's errno filtered to 0: a send task whose peer reset the "
                                                      "connection reports EPIPE (from send()) instead of ECONNRESET / ECONNREFUSED", x.get("ln"))
    return n


def window_clamp_rule(rep, uio, fname="io_buf_realloc"):
    fn = uio.fn(fname)
    if fn is None or not fn.has_cfg:
        raise driver.AnalysisBroken("anchor %s vanished" % fname)
    rep.functions.add(fname)
    ok = False
    for bid in fn.reachable_blocks():
        cnd = fn.blocks[bid].cond
        if cnd is None:
            continue
        fields = {y["f"] for y, _ in walk(cnd) if y.get("k") == "mem"}
        if "transfer_size" in fields and "offset" in fields:
            ok = True
    desc = "%s: after a resize the transfer window [offset, offset + transfer_size) lies inside the new size" % fname
    (rep.proved if ok else rep.violated)("R-WINDOW", fn, "window-inside-size", desc, "clamped against size - offset" if ok else
                                         "transfer_size is clamped against `used`, not against size - offset: shrinking 100 -> 80 with offset 60 leaves a 40-byte "
                                         "window that ends at 100, recv() writes behind the buffer")
    return 1


# ------------------------------------------------------------------ third pass (replays/C16-hunt3): the datagram receiver

def _follow(fn, start, vid, value, stop):
    """blocks reachable from `start` when the variable vid has `value` (edges contradicted by that value are not taken; a
    write to the variable ends the pruning); blocks in `stop` are not expanded"""
    from rules import r_range
    seen = set()
    work = [(start, True)]
    while work:
        b, tracking = work.pop()
        if (b, tracking) in seen:
            continue
        seen.add((b, tracking))
        if b in stop:
            continue
        blk = fn.blocks[b]
        if tracking and b != start and any(vid in r_range.direct_writes_of(e) for e in blk.elems):
            tracking = False
        succ = [s_ for s_ in blk.rsucc() if s_ is not None]
        c = blk.cond
        if tracking and c is not None and len(blk.succ) == 2:
            atoms = [y for y, _ in walk(c) if core.is_ref(y) and y.get("id") == vid]
            if atoms:
                try:
                    v = r_mpt.eval_expr(c, {id(a): value for a in atoms})
                    succ = [blk.succ[0] if v else blk.succ[1]]
                except r_mpt.Unknown:
                    pass
        work.extend((s_, tracking) for s_ in succ if s_ is not None)
    return {b for b, _t in seen}


def datagram_receiver_rule(rep, u, fname="tp_task_pkt_rcvr_handler"):
    """(a) the receive call is not made with an empty window (a zero-length recvfrom on a datagram socket dequeues and drops
    the datagram); (b) an empty datagram (result 0) is delivered to the callback like any other, it does not end the loop."""
    fn = tp.need(u, fname)
    rep.functions.add(fname)
    rcv = [(pos, c) for pos, root, c, ps in fn.calls({"recvfrom", "recvmsg", "recv"})]
    if len(rcv) != 1:
        raise driver.AnalysisBroken("%s: expected one receive call" % fname)
    rpos, rc = rcv[0]
    loops = fn.loops()
    hs = [h for h, b in loops.items() if rpos[0] in b]
    if not hs:
        raise driver.AnalysisBroken("%s: the receive call is not in a loop" % fname)
    body = loops[min(hs, key=lambda h: len(loops[h]))]
    # (a)
    ok = False
    for bid in body:
        c = fn.blocks[bid].cond
        if c is None or not fn.dominates(bid, rpos[0]) or bid == rpos[0]:
            continue
        atoms = [y for y, _ in walk(c) if y.get("k") == "mem" and y["f"] == "transfer_size"]
        if not atoms:
            continue
        try:
            v = r_mpt.eval_expr(c, {id(a): 0 for a in atoms})
        except r_mpt.Unknown:
            continue
        s_ = fn.blocks[bid].succ[0] if v else fn.blocks[bid].succ[1]
        if s_ is None or rpos[0] not in fn.reach_from([s_], avoid=[bid]):
            ok = True
    desc = "%s: the receive call is not reached with a transfer window of 0 bytes" % fname
    (rep.proved if ok else rep.violated)("R-ZEROWIN", fn, "no-zero-length-receive", desc, "" if ok else
                                         "recvfrom(fd, p, 0) on a datagram socket dequeues the datagram and returns 0: with a 16 byte window and 8 byte datagrams the third, "
                                         "fourth and fifth datagram vanish without a callback", rc.get("ln"))
    # (b)
    ids = core.result_locals(fn, {rc["fn"]})
    cbs = {pos[0] for pos, root, c, ps in fn.calls() if c.get("fn") is None and "cb_func" in key(c) and pos[0] in body and
           (pos[0] in fn.reach_from([rpos[0]]) and fn.dominates(rpos[0], pos[0]))}
    if not ids or not cbs:
        raise driver.AnalysisBroken("%s: result variable of the receive call or the data callback not found" % fname)
    vid = sorted(ids)[0]
    reach = _follow(fn, rpos[0], vid, 0, stop=cbs)
    leaves = [b for b in reach if b not in body]
    desc = "%s: a datagram of 0 bytes reaches the callback (with its sender address) and the loop goes on" % fname
    (rep.violated if leaves else rep.proved)("R-ZEROWIN", fn, "empty-datagram-delivered", desc,
                                             "with result 0 the loop is left before the callback: the empty datagram and its sender never reach the caller, and the "
                                             "datagrams queued behind it wait for the next event" if leaves else "")
    return 2



# ------------------------------------------------------------------ fourth audit (replays/C16-hunt4)

def window_validation_rule(rep, u, fname="tp_task_start_ex"):
    """the transfer window (offset + transfer_size <= size of the io buffer) is validated on every start path - before the
    branch that schedules the first I/O through the pool - before the task record is changed, and without an addition that
    can wrap"""
    fn = tp.need(u, fname)
    rep.functions.add(fname)
    tparm = [p_ for p_ in fn.params if "tp_task" in fn.unit.tstr(p_["t"])]
    if not tparm:
        raise driver.AnalysisBroken("%s: task parameter not found" % fname)
    stores = [pos for pos, root, x, ps in fn.nodes() if x.get("k") == "bin" and x["op"] == "=" and core.strip_casts(x["x"]).get("k") == "mem" and
              core.base_ref(x["x"]) is not None and core.base_ref(x["x"]).get("id") == tparm[0]["id"]]
    if not stores:
        raise driver.AnalysisBroken("%s: stores to the task record not found" % fname)
    first = min(stores, key=lambda p_: (0 if all(fn.pos_dominates(p_, q) or p_ == q for q in stores) else 1))
    checks = []
    for bid in fn.reachable_blocks():
        c = fn.blocks[bid].cond
        if c is None:
            continue
        ks = key(c)
        if "->size" in ks and ("transfer_size" in ks or "->offset" in ks):
            checks.append((bid, c))
    # (the test is one link of a short-circuit chain: it lies before the first store and one of its edges leaves)
    ok_dom = any(b != first[0] and first[0] in fn.reach_from([b]) and any(first[0] not in fn.reach_from([s_]) for s_ in fn.blocks[b].rsucc()) and
                 not any(st[0] in fn.reach_from([fn.entry], avoid=[b]) and b in fn.reach_from([st[0]]) for st in stores) for b, c in checks)
    desc = "%s: the buffer window is validated before the task record is changed, whichever way the first I/O is scheduled" % fname
    (rep.proved if ok_dom else rep.violated)("R-WINDOW", fn, "window-validated-on-every-path", desc, "" if ok_dom else
                                             "the test sits behind `0 != shedule_first_io` and after the stores: tp_task_start(size 16, offset 8, transfer_size 32) returns 0 and "
                                             "recv writes 24 bytes behind the buffer")
    wraps = [c for b, c in checks if any(y.get("k") == "bin" and y["op"] == "+" and "offset" in key(y) and "transfer_size" in key(y) for y, _ in walk(c))]
    desc = "%s: the window test does not add offset and transfer_size (the sum wraps for offset = (size_t)-8)" % fname
    (rep.violated if wraps or not checks else rep.proved)("R-WINDOW", fn, "window-test-does-not-wrap", desc, ("%s: offset (size_t)-8 + 16 wraps to 8, the call returns 0 and 8 bytes are written in "
                                                          "front of the buffer" % key(wraps[0])[:60]) if wraps else ("no window test" if not checks else ""))
    return 2


def setter_null_rule(rep, u):
    """the tp_task_*_set() setters ignore a NULL task like their siblings: the store through the task pointer is not reached
    with the pointer NULL (value-following search)"""
    from props.c15_audit import value_reaches
    n = 0
    for fn in u.function_list:
        if fn.relfile() != tp.TASK_C or not fn.has_cfg or not (fn.name.startswith("tp_task_") and fn.name.endswith("_set")) or not fn.params:
            continue
        P = fn.params[0]
        for pos, root, x, ps in fn.nodes():
            if x.get("k") == "bin" and x["op"] in ("=", "|=", "&=") and core.strip_casts(x["x"]).get("k") == "mem" and core.base_ref(x["x"]) is not None and core.base_ref(x["x"]).get("id") == P["id"]:
                n += 1
                rep.functions.add(fn.name)
                ref = {"k": "ref", "n": P["n"], "id": P["id"], "dk": "parm", "t": P["t"]}
                bad = value_reaches(fn, pos, ref, 0)
                desc = "%s: the store through %s is not reached with %s == NULL" % (fn.name, P["n"], P["n"])
                (rep.violated if bad else rep.proved)("R-NULLSET", fn, "null-task-ignored:%s" % key(core.strip_casts(x["x"]))[:30], desc,
                                                      "the guard lets NULL through (`NULL == task && NULL != arg` where || is meant): %s(NULL, NULL) is a NULL dereference" % fn.name if bad else "", x.get("ln"))
    return n
